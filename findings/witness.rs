// Witnesses for the genuine defects D1-D4 found while writing contracts (see /verif/DESIGN.md section 6).
use std::io::{self, Write};

fn crc32(data: &[u8]) -> u32 {
    let mut crc = 0xFFFF_FFFFu32;
    for &b in data {
        crc ^= b as u32;
        for _ in 0..8 {
            crc = if crc & 1 != 0 { (crc >> 1) ^ 0xEDB8_8320 } else { crc >> 1 };
        }
    }
    !crc
}

/// D1 (C06): footer backward_size + k * 2^30 is accepted because the comparison is done in wrapping u32.
#[test]
fn d1_backward_size_wraps() {
    let mut xz = Vec::new();
    lzma_rs::xz_compress(&mut io::BufReader::new(&b"hello"[..]), &mut xz).unwrap();
    // footer = crc32(4) backward_size(4) flags(2) magic(2): last 12 bytes
    let n = xz.len();
    let bs = u32::from_le_bytes([xz[n - 8], xz[n - 7], xz[n - 6], xz[n - 5]]);
    let bad = bs.wrapping_add(0x4000_0000);
    xz[n - 8..n - 4].copy_from_slice(&bad.to_le_bytes());
    let crc = crc32(&xz[n - 8..n - 2]);
    xz[n - 12..n - 8].copy_from_slice(&crc.to_le_bytes());
    let mut out = Vec::new();
    let r = lzma_rs::xz_decompress(&mut io::BufReader::new(&xz[..]), &mut out);
    assert!(r.is_err(), "corrupted backward size {:#x} (real {:#x}) was accepted", bad, bs);
}

/// D2 (C07): backward_size = 0xFFFF_FFFF makes `backward_size + 1` overflow (panic with overflow checks).
#[test]
fn d2_backward_size_overflow() {
    let mut xz = Vec::new();
    lzma_rs::xz_compress(&mut io::BufReader::new(&b"hello"[..]), &mut xz).unwrap();
    let n = xz.len();
    xz[n - 8..n - 4].copy_from_slice(&0xFFFF_FFFFu32.to_le_bytes());
    let crc = crc32(&xz[n - 8..n - 2]);
    xz[n - 12..n - 8].copy_from_slice(&crc.to_le_bytes());
    let r = std::panic::catch_unwind(|| {
        let mut out = Vec::new();
        lzma_rs::xz_decompress(&mut io::BufReader::new(&xz[..]), &mut out).is_err()
    });
    assert!(matches!(r, Ok(true)), "decoder panicked or accepted: {:?}", r.map_err(|_| "panic"));
}

/// D3 (C07): the raw decoder accepts dict_size == 0 and then divides by zero.
#[cfg(feature = "raw_decoder")]
#[test]
fn d3_zero_dict_size() {
    use lzma_rs::decompress::raw::{LzmaDecoder, LzmaParams, LzmaProperties};
    let mut lzma = Vec::new();
    lzma_rs::lzma_compress(&mut io::BufReader::new(&b"hello world"[..]), &mut lzma).unwrap();
    let r = std::panic::catch_unwind(|| {
        let params = LzmaParams::new(LzmaProperties { lc: 3, lp: 0, pb: 2 }, 0, None);
        match LzmaDecoder::new(params, None) {
            Err(_) => true,
            Ok(mut d) => {
                let mut out = Vec::new();
                d.decompress(&mut io::BufReader::new(&lzma[13..]), &mut out).is_err()
            }
        }
    });
    assert!(matches!(r, Ok(true)), "dict_size 0: decoder panicked or succeeded");
}

struct OneByteSink(Vec<u8>);
impl Write for OneByteSink {
    fn write(&mut self, buf: &[u8]) -> io::Result<usize> {
        if buf.is_empty() { return Ok(0); }
        self.0.push(buf[0]);
        Ok(1)
    }
    fn flush(&mut self) -> io::Result<()> { Ok(()) }
}

/// D4 (C12/C04): StreamFlags::serialize uses `write` instead of `write_all`; a sink that accepts one
/// byte per call loses the second stream-flags byte of the xz header.
#[test]
fn d4_short_writing_sink() {
    let mut reference = Vec::new();
    lzma_rs::xz_compress(&mut io::BufReader::new(&b"hello"[..]), &mut reference).unwrap();
    let mut sink = OneByteSink(Vec::new());
    lzma_rs::xz_compress(&mut io::BufReader::new(&b"hello"[..]), &mut sink).unwrap();
    assert_eq!(sink.0, reference, "short-writing sink received different bytes");
}

/// F-C08 (known finding, NOT fixed): with no size in effect, a stream WITHOUT end marker is accepted when
/// the decoder stands at a symbol boundary with Code == 0 and the input is exhausted.  The test documents
/// the current behaviour: it passes while the finding exists.
#[test]
fn fc08_markerless_stream_is_accepted() {
    use lzma_rs::{compress, decompress};
    let data = b"hello world hello world";
    let mut lzma = Vec::new();
    let enc = compress::Options { unpacked_size: compress::UnpackedSize::WriteToHeader(Some(data.len() as u64)) };
    lzma_rs::lzma_compress_with_options(&mut io::BufReader::new(&data[..]), &mut lzma, &enc).unwrap();
    let dec = decompress::Options {
        unpacked_size: decompress::UnpackedSize::ReadHeaderButUseProvided(None),
        ..Default::default()
    };
    let mut out = Vec::new();
    let r = lzma_rs::lzma_decompress_with_options(&mut io::BufReader::new(&lzma[..]), &mut out, &dec);
    assert!(r.is_ok(), "marker-less stream now rejected: the known finding F-C08 no longer reproduces");
    assert_eq!(&out[..], &data[..]);
}

/// D5 (C18): an .xz file that declares the unsupported SHA-256 check (0x0A) but contains no block was accepted
/// (SHA-256 was refused only when a block's check field was validated).
#[test]
fn d5_sha256_without_blocks() {
    let mut xz: Vec<u8> = vec![0xFD, b'7', b'z', b'X', b'Z', 0x00, 0x00, 0x0A];
    let c = crc32(&xz[6..8]);
    xz.extend_from_slice(&c.to_le_bytes());
    // index: indicator 0x00, zero records, padding to a multiple of four, CRC32
    let idx = [0x00u8, 0x00, 0x00, 0x00];
    xz.extend_from_slice(&idx);
    xz.extend_from_slice(&crc32(&idx).to_le_bytes());
    // footer: CRC32 of (backward size, flags), backward size = index size / 4 - 1 = 1, flags, magic
    let mut ft: Vec<u8> = Vec::new();
    ft.extend_from_slice(&1u32.to_le_bytes());
    ft.extend_from_slice(&[0x00, 0x0A]);
    xz.extend_from_slice(&crc32(&ft).to_le_bytes());
    xz.extend_from_slice(&ft);
    xz.extend_from_slice(b"YZ");
    let mut out = Vec::new();
    let r = lzma_rs::xz_decompress(&mut io::BufReader::new(&xz[..]), &mut out);
    assert!(r.is_err(), "a stream declaring the unsupported SHA-256 check was accepted: {:?}", r);
}
