use vstd::prelude::*;
verus! {
#[verifier::external_type_specification]
#[verifier::external_body]
pub struct ExIoError(std::io::Error);
pub enum Error { IoError(std::io::Error), LzmaError(String) }
impl From<std::io::Error> for Error {
    fn from(e: std::io::Error) -> Error { Error::IoError(e) }
}
impl vstd::std_specs::convert::FromSpecImpl<std::io::Error> for Error {
    open spec fn obeys_from_spec() -> bool { true }
    open spec fn from_spec(e: std::io::Error) -> Error { Error::IoError(e) }
}
#[verifier::external_body]
fn w() -> std::io::Result<()> { Ok(()) }
fn f() -> (r: Result<(), Error>)
  ensures r is Err ==> r matches Err(Error::IoError(_))
{
    w()?;
    Ok(())
}
fn g() -> (r: Result<(), Error>)
  ensures r is Err ==> r matches Err(Error::IoError(_))
{
    match w() { Ok(_) => {}, Err(e) => { return Err(From::from(e)); } }
    Ok(())
}
}
fn main() {}
