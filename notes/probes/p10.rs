#![allow(unused_imports, dead_code, unused_variables)]
use vstd::prelude::*;
use std::io;
use std::io::Read;
verus! {

#[verifier::external_type_specification]
#[verifier::external_body]
pub struct ExIoError(std::io::Error);

#[verifier::external_type_specification]
#[verifier::external_body]
#[verifier::reject_recursive_types(T)]
pub struct ExTake<T>(std::io::Take<T>);

pub uninterp spec fn take_limit<T>(t: &std::io::Take<T>) -> u64;
pub uninterp spec fn take_inner<T>(t: &std::io::Take<T>) -> T;

#[verifier::external_trait_specification]
#[verifier::external_trait_extension(ReadSpec via ReadSpecImpl)]
pub trait ExRead {
    type ExternalTraitSpecificationFor: std::io::Read;
    spec fn remaining(&self) -> Seq<u8>;
    fn read(&mut self, buf: &mut [u8]) -> (r: std::io::Result<usize>);
    fn take(self, limit: u64) -> (t: std::io::Take<Self>) where Self: Sized
        ensures take_limit(&t) == limit, take_inner(&t) == self;
}

#[verifier::external_trait_specification]
pub trait ExBufRead: std::io::Read {
    type ExternalTraitSpecificationFor: std::io::BufRead;
    fn fill_buf(&mut self) -> (r: std::io::Result<&[u8]>);
    fn consume(&mut self, amt: usize);
}

pub fn read1<R: io::BufRead>(r: &mut R) -> (res: io::Result<u8>)
   ensures (*old(r)).remaining().len() > 0 ==> res is Ok && (*final(r)).remaining() == (*old(r)).remaining().skip(1),
           (*old(r)).remaining().len() == 0 ==> res is Err && (*final(r)).remaining() == (*old(r)).remaining(),
{
    assume(false);
    let mut b = [0u8; 1];
    let n = r.read(&mut b)?;
    Ok(b[0])
}

fn chunk<R: io::BufRead>(input: &mut R, packed: u64) -> (res: io::Result<u8>)
{
    let mut taken = input.take(packed);
    let x = read1(&mut taken)?;
    Ok(x)
}

} // verus!
fn main() {}
