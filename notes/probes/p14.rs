#![allow(unused_imports, dead_code, unused_variables)]
use vstd::prelude::*;
use std::io;
verus! {

#[verifier::external_type_specification]
#[verifier::external_body]
pub struct ExIoError(std::io::Error);

#[verifier::external_trait_specification]
#[verifier::external_trait_extension(ReadSpec via ReadSpecImpl)]
pub trait ExRead {
    type ExternalTraitSpecificationFor: std::io::Read;
    spec fn remaining(&self) -> Seq<u8>;
    spec fn avail(&self) -> nat;
    #[verifier::prophetic]
    spec fn src_eq(&self, o: &Self) -> bool;
    spec fn plain(&self) -> bool;
    fn read(&mut self, buf: &mut [u8]) -> (r: std::io::Result<usize>)
        ensures 
            (*final(self)).src_eq(&*old(self)),
            (*old(self)).plain() ==> (*final(self)).plain(),
            r matches Ok(n) ==> n <= old(buf)@.len() && n <= (*old(self)).avail()
                   && (*final(self)).remaining() == (*old(self)).remaining().skip(n as int)
                   && (*final(self)).avail() == (*old(self)).avail() - n
                   && final(buf)@.len() == old(buf)@.len(),
            r is Err ==> (*final(self)).remaining() == (*old(self)).remaining() && (*final(self)).avail() == (*old(self)).avail();
}

#[verifier::external_body]
pub proof fn axiom_src_eq_refl<R: io::Read>(r: &R)
    ensures r.src_eq(r)
{}

pub struct TakeShim<'a, R: io::Read> { pub inner: &'a mut R, pub limit: u64 }

impl<'a, R: io::Read> ReadSpecImpl for TakeShim<'a, R> {
    open spec fn remaining(&self) -> Seq<u8> { (*self.inner).remaining() }
    open spec fn avail(&self) -> nat { if (*self.inner).avail() <= self.limit { (*self.inner).avail() } else { self.limit as nat } }
    #[verifier::prophetic]
    open spec fn src_eq(&self, o: &Self) -> bool {
        mut_ref_future(self.inner) == mut_ref_future(o.inner) && (*self.inner).src_eq(&*o.inner)
        && ((*o.inner).plain() ==> (*self.inner).plain())
    }
    open spec fn plain(&self) -> bool { false }
}

impl<'a, R: io::Read> io::Read for TakeShim<'a, R> {
    fn read(&mut self, buf: &mut [u8]) -> (r: std::io::Result<usize>)
    {
        proof { axiom_src_eq_refl::<R>(&*self.inner); }
        if self.limit == 0 { return Ok(0); }
        let max = if (buf.len() as u64) < self.limit { buf.len() } else { self.limit as usize };
        let n = self.inner.read(&mut buf[..max])?;
        self.limit -= n as u64;
        Ok(n)
    }
}

#[verifier::prophetic]
pub open spec fn advanced<R: io::Read>(o: &R, n: &R, k: nat) -> bool {
    n.remaining() == o.remaining().skip(k as int) && n.avail() + k == o.avail() && n.src_eq(o)
}

pub fn read1<R: io::Read>(r: &mut R) -> (res: io::Result<u8>)
   ensures 
           (*old(r)).avail() > 0 ==> res is Ok && advanced(&*old(r), &*final(r), 1),
           (*old(r)).avail() == 0 ==> res is Err && advanced(&*old(r), &*final(r), 0),
{
    assume(false);
    let mut b = [0u8; 1];
    let n = r.read(&mut b)?;
    Ok(b[0])
}

fn chunk<R: io::Read>(input: &mut R, packed: u64) -> (res: io::Result<u8>)
    requires packed >= 1, (*old(input)).plain(), 
    ensures (*old(input)).avail() > 0 ==> res is Ok && (*final(input)).remaining() == (*old(input)).remaining().skip(1) && (*final(input)).src_eq(&*old(input)) && (*final(input)).plain(),
{
    let mut taken = TakeShim { inner: input, limit: packed };
    let x = read1(&mut taken)?;
    Ok(x)
}

} // verus!
fn main() {}
