#![allow(unused_imports, dead_code, unused_variables)]
use vstd::prelude::*;
use std::io;
verus! {

#[verifier::external_type_specification]
#[verifier::external_body]
pub struct ExIoError(std::io::Error);

#[verifier::external_trait_specification]
#[verifier::external_trait_extension(ReadSpec via ReadSpecImpl)]
pub trait ExRead {
    type ExternalTraitSpecificationFor: std::io::Read;
    spec fn remaining(&self) -> Seq<u8>;
    fn read(&mut self, buf: &mut [u8]) -> (r: std::io::Result<usize>)
        ensures r matches Ok(n) ==> n <= old(buf)@.len() && n <= (*old(self)).remaining().len()
                   && (*final(self)).remaining() == (*old(self)).remaining().skip(n as int)
                   && final(buf)@.len() == old(buf)@.len()
                   && final(buf)@.take(n as int) == (*old(self)).remaining().take(n as int),
                r is Err ==> (*final(self)).remaining() == (*old(self)).remaining();
}

pub struct TakeShim<'a, R: io::Read> { inner: &'a mut R, limit: u64, start: Ghost<Seq<u8>>, limit0: Ghost<u64> }

impl<'a, R: io::Read> ReadSpecImpl for TakeShim<'a, R> {
    closed spec fn remaining(&self) -> Seq<u8> {
        let rem = (*self.inner).remaining();
        if rem.len() <= self.limit { rem } else { rem.take(self.limit as int) }
    }
}
impl<'a, R: io::Read> TakeShim<'a, R> {
    #[verifier::type_invariant]
    closed spec fn inv(&self) -> bool {
        &&& self.limit <= self.limit0@
        &&& self.limit0@ - self.limit <= self.start@.len()
        &&& (*self.inner).remaining() == self.start@.skip(self.limit0@ - self.limit)
    }
    pub closed spec fn consumed(&self) -> int { self.limit0@ - self.limit }
    pub closed spec fn start_rem(&self) -> Seq<u8> { self.start@ }
    pub closed spec fn inner_rem(&self) -> Seq<u8> { (*self.inner).remaining() }
    pub fn new(inner: &'a mut R, limit: u64) -> (t: Self)
        ensures t.start_rem() == (*old(inner)).remaining(), t.consumed() == 0,
            ReadSpec::remaining(&t) == (if (*old(inner)).remaining().len() <= limit { (*old(inner)).remaining() } else { (*old(inner)).remaining().take(limit as int) }),
    {
        let ghost st = (*inner).remaining();
        TakeShim { inner, limit, start: Ghost(st), limit0: Ghost(limit) }
    }
    pub proof fn lemma_inv(tracked &self)
        ensures self.inner_rem() == self.start_rem().skip(self.consumed()),
           0 <= self.consumed() <= self.start_rem().len(),
           ReadSpec::remaining(self).len() + self.consumed() == (if self.start_rem().len() <= self.consumed() + (ReadSpec::remaining(self).len()) { self.start_rem().len() as int } else { self.consumed() + ReadSpec::remaining(self).len() }),
    {
        use_type_invariant(self);
    }
}

impl<'a, R: io::Read> io::Read for TakeShim<'a, R> {
    fn read(&mut self, buf: &mut [u8]) -> (r: std::io::Result<usize>)
    {
        proof { use_type_invariant(&*self); }
        if self.limit == 0 { return Ok(0); }
        let max = if (buf.len() as u64) < self.limit { buf.len() } else { self.limit as usize };
        let n = self.inner.read(&mut buf[..max])?;
        self.limit -= n as u64;
        Ok(n)
    }
}

pub fn read1<R: io::Read>(r: &mut R) -> (res: io::Result<u8>)
   ensures (*old(r)).remaining().len() > 0 ==> res is Ok && (*final(r)).remaining() == (*old(r)).remaining().skip(1),
           (*old(r)).remaining().len() == 0 ==> res is Err && (*final(r)).remaining() == (*old(r)).remaining(),
{
    assume(false);
    let mut b = [0u8; 1];
    let n = r.read(&mut b)?;
    Ok(b[0])
}

fn chunk<R: io::Read>(input: &mut R, packed: u64) -> (res: io::Result<u8>)
    requires packed >= 1,
    ensures (*old(input)).remaining().len() > 0 ==> res is Ok && (*final(input)).remaining() == (*old(input)).remaining().skip(1),
{
    let mut taken = TakeShim::new(input, packed);
    let r = read1(&mut taken);
    proof { taken.lemma_inv(); }
    let x = r?;
    Ok(x)
}

} // verus!
fn main() {}
