#![allow(unused_imports, dead_code, unused_variables)]
use vstd::prelude::*;
use std::io;
verus! {

#[verifier::external_type_specification]
#[verifier::external_body]
pub struct ExIoError(std::io::Error);

#[verifier::external_trait_specification]
#[verifier::external_trait_extension(ReadSpec via ReadSpecImpl)]
pub trait ExRead {
    type ExternalTraitSpecificationFor: std::io::Read;
    /// all bytes that the underlying source will ever deliver from now on
    spec fn remaining(&self) -> Seq<u8>;
    /// how many of them this reader is allowed to deliver (Take limits it)
    spec fn avail(&self) -> nat;
    fn read(&mut self, buf: &mut [u8]) -> (r: std::io::Result<usize>)
        ensures 
            (*old(self)).avail() <= (*old(self)).remaining().len() ==> (*final(self)).avail() <= (*final(self)).remaining().len(),
            r matches Ok(n) ==> n <= old(buf)@.len() && n <= (*old(self)).avail()
                   && (*final(self)).remaining() == (*old(self)).remaining().skip(n as int)
                   && (*final(self)).avail() == (*old(self)).avail() - n
                   && final(buf)@.len() == old(buf)@.len()
                   && final(buf)@.take(n as int) == (*old(self)).remaining().take(n as int),
            r is Err ==> (*final(self)).remaining() == (*old(self)).remaining() && (*final(self)).avail() == (*old(self)).avail();
}

pub struct TakeShim<'a, R: io::Read> { pub inner: &'a mut R, pub limit: u64 }

impl<'a, R: io::Read> ReadSpecImpl for TakeShim<'a, R> {
    open spec fn remaining(&self) -> Seq<u8> { (*self.inner).remaining() }
    open spec fn avail(&self) -> nat { if (*self.inner).avail() <= self.limit { (*self.inner).avail() } else { self.limit as nat } }
}

impl<'a, R: io::Read> io::Read for TakeShim<'a, R> {
    fn read(&mut self, buf: &mut [u8]) -> (r: std::io::Result<usize>)
    {
        if self.limit == 0 { return Ok(0); }
        let max = if (buf.len() as u64) < self.limit { buf.len() } else { self.limit as usize };
        let n = self.inner.read(&mut buf[..max])?;
        self.limit -= n as u64;
        Ok(n)
    }
}

pub fn read1<R: io::Read>(r: &mut R) -> (res: io::Result<u8>)
   requires (*old(r)).avail() <= (*old(r)).remaining().len(),
   ensures (*final(r)).avail() <= (*final(r)).remaining().len(),
           (*old(r)).avail() > 0 ==> res is Ok && (*final(r)).remaining() == (*old(r)).remaining().skip(1) && (*final(r)).avail() == (*old(r)).avail() - 1,
           (*old(r)).avail() == 0 ==> res is Err && (*final(r)).remaining() == (*old(r)).remaining(),
{
    assume(false);
    let mut b = [0u8; 1];
    let n = r.read(&mut b)?;
    Ok(b[0])
}

fn chunk<R: io::Read>(input: &mut R, packed: u64) -> (res: io::Result<u8>)
    requires packed >= 1, (*old(input)).avail() <= (*old(input)).remaining().len(),
    ensures (*old(input)).avail() > 0 ==> res is Ok && (*final(input)).remaining() == (*old(input)).remaining().skip(1),
{
    let mut taken = TakeShim { inner: input, limit: packed };
    let x = read1(&mut taken)?;
    Ok(x)
}

} // verus!
fn main() {}
