#![allow(unused_imports, dead_code)]
use vstd::prelude::*;
verus! {

pub open spec fn upd(p: u16, bit: bool) -> u16 { if bit { (p - 1) as u16 } else { (p + 1) as u16 } }

pub struct RD { pub range: u32, pub code: u32 }
impl RD {
    pub fn decode_bit(&mut self, prob: &mut u16, update: bool) -> (r: bool)
        requires 31 <= *old(prob) <= 2017,
        ensures 31 <= *final(prob) <= 2017,
            r == (old(self).code >= old(self).range / 2),
            *final(prob) == (if update { if 32 <= *old(prob) <= 2016 { upd(*old(prob), r) } else { *old(prob) } } else { *old(prob) }),
            final(self).range == old(self).range, final(self).code == old(self).code,
    {
        let r = self.code >= self.range / 2;
        if update && *prob >= 32 && *prob <= 2016 {
            if r { *prob -= 1; } else { *prob += 1; }
        }
        r
    }

    fn parse_bit_tree(&mut self, num_bits: usize, probs: &mut [u16], update: bool) -> (res: u32)
        requires 1 <= num_bits <= 8, old(probs)@.len() == (1usize << num_bits),
            forall|i: int| 0 <= i < old(probs)@.len() ==> 31 <= #[trigger] old(probs)@[i] <= 2017,
        ensures final(probs)@.len() == old(probs)@.len(),
            forall|i: int| 0 <= i < final(probs)@.len() ==> 31 <= #[trigger] final(probs)@[i] <= 2017,
            !update ==> final(probs)@ == old(probs)@,
            res < (1u32 << num_bits),
    {
        let mut tmp: u32 = 1;
        assert((1usize << num_bits) <= 256 && (1usize << num_bits) >= 2) by (bit_vector) requires 1 <= num_bits <= 8;
        for i in 0..num_bits
            invariant
                1 <= num_bits <= 8,
                probs@.len() == old(probs)@.len(), probs@.len() == (1usize << num_bits),
                i <= num_bits,
                (1u32 << i) <= tmp, tmp < (2u32 << i),
                forall|j: int| 0 <= j < probs@.len() ==> 31 <= #[trigger] probs@[j] <= 2017,
                !update ==> probs@ == old(probs)@,
        {
            let ghost plen: usize = probs@.len() as usize;
            assert((tmp as usize) < plen) by (bit_vector) requires tmp < (2u32 << i), i < num_bits, num_bits <= 8, plen == (1usize << num_bits);
            let bit = self.decode_bit(&mut probs[tmp as usize], update);
            let ghost t0 = tmp;
            tmp = (tmp << 1) ^ (bit as u32);
            let ghost b32 = bit as u32;
            assert(tmp >= (1u32 << ((i + 1) as usize)) && tmp < (2u32 << ((i+1) as usize))) by (bit_vector) requires t0 >= (1u32 << i), t0 < (2u32 << i), i < 8, b32 <= 1, tmp == (t0 << 1) ^ b32;
        }
        assert(tmp - (1u32 << num_bits) < (1u32 << num_bits)) by (bit_vector) requires tmp >= (1u32 << num_bits), tmp < (2u32 << num_bits), num_bits<=8;
        tmp - (1 << num_bits)
    }
}
} // verus!
fn main() {}
