#![allow(unused_imports, dead_code)]
use vstd::prelude::*;
use std::io;
verus! {

#[verifier::external_type_specification]
#[verifier::external_body]
pub struct ExIoError(std::io::Error);

#[verifier::external_trait_specification]
#[verifier::external_trait_extension(WriteSpec via WriteSpecImpl)]
pub trait ExWrite {
    type ExternalTraitSpecificationFor: std::io::Write;
    spec fn written(&self) -> Seq<u8>;
    fn write_all(&mut self, buf: &[u8]) -> (r: std::io::Result<()>)
        ensures
            r.is_ok() ==> final(self).written() == old(self).written() + buf@,
    ;
    fn flush(&mut self) -> (r: std::io::Result<()>)
        ensures final(self).written() == old(self).written();
}

pub mod error {
    use vstd::prelude::*;
    use std::io;
    pub enum Error {
        IoError(io::Error),
        HeaderTooShort(io::Error),
        LzmaError(String),
        XzError(String),
    }
    pub type Result<T> = core::result::Result<T, Error>;
    impl From<io::Error> for Error {
        fn from(e: io::Error) -> Error {
            Error::IoError(e)
        }
    }
    impl vstd::std_specs::convert::FromSpecImpl<io::Error> for Error {
        open spec fn obeys_from_spec() -> bool { true }
        open spec fn from_spec(e: io::Error) -> Error { Error::IoError(e) }
    }
}

#[verifier::external_body]
pub fn fmt_stub() -> String { String::new() }

