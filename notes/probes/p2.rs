use vstd::prelude::*;
use std::io;
verus! {

#[verifier::external_type_specification]
#[verifier::external_body]
pub struct ExIoError(std::io::Error);

#[verifier::external_trait_specification]
#[verifier::external_trait_extension(WriteSpec via WriteSpecImpl)]
pub trait ExWrite {
    type ExternalTraitSpecificationFor: std::io::Write;

    spec fn written(&self) -> Seq<u8>;

    fn write_all(&mut self, buf: &[u8]) -> (r: std::io::Result<()>)
        ensures
            r.is_ok() ==> final(self).written() == old(self).written() + buf@,
    ;
    fn flush(&mut self) -> (r: std::io::Result<()>)
        ensures final(self).written() == old(self).written();
}

fn f<W: io::Write>(w: &mut W, b: &[u8]) -> (r: io::Result<()>)
  ensures r.is_ok() ==> (*final(w)).written() == (*old(w)).written() + b@,
{
    w.write_all(b)?;
    w.flush()?;
    Ok(())
}

} // verus!
fn main() {}
