#![allow(unused_imports, dead_code, unused_variables)]
use vstd::prelude::*;
use std::io;
verus! {
#[verifier::external_type_specification]
#[verifier::external_body]
pub struct ExIoError(std::io::Error);

#[verifier::external_trait_specification]
#[verifier::external_trait_extension(WriteSpec via WriteSpecImpl)]
pub trait ExWrite {
    type ExternalTraitSpecificationFor: std::io::Write;
    spec fn obeys_write_spec(&self) -> bool;
    spec fn written(&self) -> Seq<u8>;
    fn write(&mut self, buf: &[u8]) -> (r: std::io::Result<usize>)
        ensures (*old(self)).obeys_write_spec() ==> (*final(self)).obeys_write_spec() && (r matches Ok(n) ==> n <= buf@.len() && (*final(self)).written() == (*old(self)).written() + buf@.take(n as int));
    fn flush(&mut self) -> (r: std::io::Result<()>)
        ensures (*old(self)).obeys_write_spec() ==> (*final(self)).written() == (*old(self)).written();
}

pub enum St<W> { Header(W), Data(Box<(u32, W)>) }
pub struct Stream<W: io::Write> { pub state: Option<St<W>>, pub n: u64 }

impl<W: io::Write> WriteSpecImpl for Stream<W> {
    open spec fn obeys_write_spec(&self) -> bool { false }
    open spec fn written(&self) -> Seq<u8> { Seq::empty() }
}

pub assume_specification<T> [Option::<T>::replace] (o: &mut Option<T>, v: T) -> (r: Option<T>)
    ensures *final(o) == Some(v), r == *old(o);

impl<W: io::Write> io::Write for Stream<W> {
    fn write(&mut self, data: &[u8]) -> (r: io::Result<usize>)
        ensures old(self).state is None ==> (r matches Ok(k) && k == 0) && final(self).state is None,
                r is Err ==> final(self).state is None,
    {
        if let Some(state) = self.state.take() {
            let state = match state {
                St::Header(w) => {
                    if data.len() > 3 { return Err(mk_err()); }
                    St::Data(Box::new((1, w)))
                }
                St::Data(b) => St::Data(b),
            };
            self.state.replace(state);
            return Ok(data.len());
        }
        Ok(0)
    }
    fn flush(&mut self) -> (r: io::Result<()>) { Ok(()) }
}
#[verifier::external_body]
fn mk_err() -> io::Error { io::Error::new(io::ErrorKind::Other, "x") }
}
fn main() {}
