use vstd::prelude::*;
use std::ops::{Index, IndexMut};
verus! {
pub struct Vec2D<T> {
    pub data: Box<[T]>,
    pub cols: usize,
}
impl<T> vstd::std_specs::core::IndexSpecImpl<usize> for Vec2D<T> {
    open spec fn index_req(&self, row: usize) -> bool { (row + 1) * self.cols <= self.data@.len() }
}
impl<T> Index<usize> for Vec2D<T> {
    type Output = [T];
    fn index(&self, row: usize) -> &Self::Output {
        let start_row = row
            .checked_mul(self.cols)
            .unwrap();
        &self.data[start_row..start_row + self.cols]
    }
}
}
fn main() {}
