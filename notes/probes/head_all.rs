#![feature(allocator_api)]
#![allow(unused_imports, dead_code, unused_variables)]
use vstd::prelude::*;
verus! {

#[verifier::external_type_specification]
#[verifier::external_body]
pub struct ExIoError(std::io::Error);

#[verifier::external_trait_specification]
#[verifier::external_trait_extension(WriteSpec via WriteSpecImpl)]
pub trait ExWrite {
    type ExternalTraitSpecificationFor: std::io::Write;
    spec fn written(&self) -> Seq<u8>;
    fn write_all(&mut self, buf: &[u8]) -> (r: std::io::Result<()>)
        ensures r.is_ok() ==> (*final(self)).written() == (*old(self)).written() + buf@;
    fn flush(&mut self) -> (r: std::io::Result<()>)
        ensures (*final(self)).written() == (*old(self)).written();
}

#[verifier::external_trait_specification]
#[verifier::external_trait_extension(ReadSpec via ReadSpecImpl)]
pub trait ExRead {
    type ExternalTraitSpecificationFor: std::io::Read;
    spec fn remaining(&self) -> Seq<u8>;
    fn read(&mut self, buf: &mut [u8]) -> (r: std::io::Result<usize>);
    fn read_exact(&mut self, buf: &mut [u8]) -> (r: std::io::Result<()>);
}

#[verifier::external_trait_specification]
pub trait ExBufRead: std::io::Read {
    type ExternalTraitSpecificationFor: std::io::BufRead;
    fn fill_buf(&mut self) -> (r: std::io::Result<&[u8]>)
       ensures (*final(self)).remaining() == (*old(self)).remaining(),
         r matches Ok(b) ==> b@.is_prefix_of((*old(self)).remaining()) && (b@.len() == 0 ==> (*old(self)).remaining().len() == 0);
    fn consume(&mut self, amt: usize)
       requires amt <= (*old(self)).remaining().len(),
       ensures (*final(self)).remaining() == (*old(self)).remaining().skip(amt as int);
}




#[verifier::external_type_specification]
#[verifier::external_body]
#[verifier::reject_recursive_types(T)]
pub struct ExCursor<T>(std::io::Cursor<T>);

pub uninterp spec fn cursor_pos<T>(c: &std::io::Cursor<T>) -> u64;
pub uninterp spec fn cursor_inner<T>(c: &std::io::Cursor<T>) -> T;

pub assume_specification<T> [std::io::Cursor::<T>::new] (inner: T) -> (r: std::io::Cursor<T>)
    ensures cursor_pos(&r) == 0, cursor_inner(&r) == inner;
pub assume_specification<T> [std::io::Cursor::<T>::position] (c: &std::io::Cursor<T>) -> (r: u64)
    ensures r == cursor_pos(c);
pub assume_specification<T> [std::io::Cursor::<T>::set_position] (c: &mut std::io::Cursor<T>, pos: u64)
    ensures cursor_pos(final(c)) == pos, cursor_inner(final(c)) == cursor_inner(old(c));
pub assume_specification<T> [std::io::Cursor::<T>::get_ref] (c: &std::io::Cursor<T>) -> (r: &T)
    ensures *r == cursor_inner(c);

pub assume_specification<T, A: core::alloc::Allocator> [Vec::<T, A>::into_boxed_slice] (v: Vec<T, A>) -> (r: Box<[T], A>)
    ensures r@ == v@;


pub assume_specification<T> [std::io::Cursor::<T>::get_mut] (c: &mut std::io::Cursor<T>) -> (r: &mut T)
    ensures *r == cursor_inner(old(c)), cursor_inner(final(c)) == *final(r), cursor_pos(final(c)) == cursor_pos(old(c));
pub assume_specification<T: Clone> [<[T]>::fill] (s: &mut [T], v: T)
    ensures final(s)@.len() == old(s)@.len(), forall|i: int| 0 <= i < final(s)@.len() ==> final(s)@[i] == v;

pub mod shim {
    use vstd::prelude::*;
    use crate::ReadSpec;
    pub trait ReadBytesShim: std::io::Read + Sized {
        #[verifier::external_body]
        fn read_u8(&mut self) -> (r: std::io::Result<u8>)
           ensures
             (*old(self)).remaining().len() > 0 ==> (r matches Ok(b) && b == (*old(self)).remaining()[0] && (*final(self)).remaining() == (*old(self)).remaining().skip(1)),
             (*old(self)).remaining().len() == 0 ==> r.is_err() && (*final(self)).remaining() == (*old(self)).remaining(),
        { unimplemented!() }
        #[verifier::external_body]
        fn read_u16_be(&mut self) -> (r: std::io::Result<u16>) { unimplemented!() }
        #[verifier::external_body]
        fn read_u32_be(&mut self) -> (r: std::io::Result<u32>) { unimplemented!() }
        #[verifier::external_body]
        fn read_u32_le(&mut self) -> (r: std::io::Result<u32>) { unimplemented!() }
        #[verifier::external_body]
        fn read_u64_le(&mut self) -> (r: std::io::Result<u64>) { unimplemented!() }
    }
    impl<R: std::io::Read> ReadBytesShim for R {}
    pub trait WriteBytesShim: std::io::Write + Sized {
        #[verifier::external_body]
        fn write_u8(&mut self, v: u8) -> (r: std::io::Result<()>) { unimplemented!() }
        #[verifier::external_body]
        fn write_u16_be(&mut self, v: u16) -> (r: std::io::Result<()>) { unimplemented!() }
        #[verifier::external_body]
        fn write_u32_le(&mut self, v: u32) -> (r: std::io::Result<()>) { unimplemented!() }
        #[verifier::external_body]
        fn write_u64_le(&mut self, v: u64) -> (r: std::io::Result<()>) { unimplemented!() }
    }
    impl<W: std::io::Write> WriteBytesShim for W {}
}
pub mod crc {
    use vstd::prelude::*;
    pub trait Width: Sized {}
    impl Width for u32 {}
    impl Width for u64 {}
    #[verifier::external_body]
    #[verifier::reject_recursive_types(W)]
    pub struct Algorithm<W: Width> { pub w: core::marker::PhantomData<W> }
    #[verifier::external_body]
    #[verifier::reject_recursive_types(W)]
    pub struct Crc<W: Width> { pub w: core::marker::PhantomData<W> }
    #[verifier::external_body]
    #[verifier::reject_recursive_types(W)]
    pub struct Digest<'a, W: Width> { w: core::marker::PhantomData<&'a W> }
    pub uninterp spec fn crc32_of(s: Seq<u8>) -> u32;
    pub uninterp spec fn crc64_of(s: Seq<u8>) -> u64;
    impl Crc<u32> {
        #[verifier::external_body]
        pub const fn new(algorithm: &'static Algorithm<u32>) -> Self { Crc { w: core::marker::PhantomData } }
        #[verifier::external_body]
        pub fn checksum(&self, bytes: &[u8]) -> (r: u32) ensures r == crc32_of(bytes@) { unimplemented!() }
        #[verifier::external_body]
        pub fn digest(&self) -> (r: Digest<'_, u32>) ensures r.fed() == Seq::<u8>::empty() { unimplemented!() }
    }
    impl Crc<u64> {
        #[verifier::external_body]
        pub const fn new(algorithm: &'static Algorithm<u64>) -> Self { Crc { w: core::marker::PhantomData } }
        #[verifier::external_body]
        pub fn checksum(&self, bytes: &[u8]) -> (r: u64) ensures r == crc64_of(bytes@) { unimplemented!() }
    }
    impl<'a, W: Width> Digest<'a, W> {
        pub uninterp spec fn fed(&self) -> Seq<u8>;
    }
    impl<'a> Digest<'a, u32> {
        #[verifier::external_body]
        pub fn update(&mut self, bytes: &[u8]) ensures final(self).fed() == old(self).fed() + bytes@ { unimplemented!() }
        #[verifier::external_body]
        pub fn finalize(self) -> (r: u32) ensures r == crc32_of(self.fed()) { unimplemented!() }
    }
    #[verifier::external_body]
    pub const CRC_32_ISO_HDLC: Algorithm<u32> = Algorithm { w: core::marker::PhantomData };
    #[verifier::external_body]
    pub const CRC_64_XZ: Algorithm<u64> = Algorithm { w: core::marker::PhantomData };
}

pub uninterp spec fn tz(x: usize) -> u32;
pub assume_specification [usize::trailing_zeros] (x: usize) -> (r: u32)
    ensures r == tz(x), r <= 64;

#[verifier::external_body]
pub fn fmt_stub() -> String { String::new() }

