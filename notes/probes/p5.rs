#![allow(unused_imports, dead_code)]
use vstd::prelude::*;
verus! {

pub struct RcSt { pub range: u32, pub code: u32, pub pos: nat }

pub open spec fn prob_ok(p: u16) -> bool { 0 < p && p < 0x800 }

pub open spec fn sp_bound(range: u32, prob: u16) -> u32 { ((range >> 11) * (prob as u32)) as u32 }

pub open spec fn sp_prob_upd(prob: u16, bit: bool) -> u16 {
    if bit { (prob - (prob >> 5)) as u16 } else { (prob + ((0x800u16 - prob) as u16 >> 5)) as u16 }
}

pub struct RD { pub range: u32, pub code: u32 }

proof fn lemma_bound(range: u32, prob: u16)
    requires prob_ok(prob)
    ensures (range >> 11) * (prob as u32) <= range, (range >> 11) * (prob as u32) <= 0xFFFF_FFFF,
       range >= 0x0100_0000 ==> (range >> 11) * (prob as u32) >= 0x2000
{
    let a = range >> 11;
    assert(a <= 0x1F_FFFF) by (bit_vector) requires a == range >> 11;
    assert((a << 11) <= range) by (bit_vector) requires a == range >> 11;
    assert((a << 11) == a * 0x800) by (bit_vector) requires a <= 0x1F_FFFF;
    assert(a * (prob as u32) <= a * 0x800) by (nonlinear_arith) requires prob < 0x800, a >= 0;
    if range >= 0x0100_0000 {
        assert(a >= 0x2000) by (bit_vector) requires a == range >> 11, range >= 0x0100_0000;
        assert(a * (prob as u32) >= 0x2000) by (nonlinear_arith) requires prob >= 1, a >= 0x2000;
    }
}

proof fn lemma_prob(prob: u16)
    requires prob_ok(prob)
    ensures prob_ok(sp_prob_upd(prob, true)), prob_ok(sp_prob_upd(prob, false)),
       prob + ((0x800u16 - prob) as u16 >> 5) < 0x800, prob - (prob >> 5) > 0
{
    assert(prob - (prob >> 5) > 0 && (prob >> 5) <= prob) by (bit_vector) requires 0 < prob && prob < 0x800;
    let d = (0x800u16 - prob) as u16;
    assert((d >> 5) < d || d < 32 && (d>>5) == 0) by (bit_vector);
}

impl RD {
    pub fn decode_bit(&mut self, prob: &mut u16, update: bool) -> (r: bool)
        requires prob_ok(*old(prob)),
        ensures prob_ok(*final(prob)),
            ({ let b = sp_bound(old(self).range, *old(prob));
               r == !(old(self).code < b)
               && final(self).range == (if r { (old(self).range - b) as u32 } else { b })
               && final(self).code == (if r { (old(self).code - b) as u32 } else { old(self).code })
               && *final(prob) == (if update { sp_prob_upd(*old(prob), r) } else { *old(prob) })
            }),
    {
        proof { lemma_bound(self.range, *prob); lemma_prob(*prob); }
        let bound: u32 = (self.range >> 11) * (*prob as u32);
        if self.code < bound {
            if update {
                *prob += (0x800_u16 - *prob) >> 5;
            }
            self.range = bound;
            false
        } else {
            if update {
                *prob -= *prob >> 5;
            }
            self.code -= bound;
            self.range -= bound;
            true
        }
    }
}

} // verus!
fn main() {}
