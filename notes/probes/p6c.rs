#![allow(unused_imports, dead_code)]
use vstd::prelude::*;
use std::io;
use byteorder::{BigEndian, ReadBytesExt};
verus! {

#[verifier::external_type_specification]
#[verifier::external_body]
pub struct ExIoError(std::io::Error);

#[verifier::external_trait_specification]
#[verifier::external_trait_extension(ReadSpec via ReadSpecImpl)]
pub trait ExRead {
    type ExternalTraitSpecificationFor: std::io::Read;
    spec fn remaining(&self) -> Seq<u8>;
}

#[verifier::external_trait_specification]
pub trait ExBufRead: std::io::Read {
    type ExternalTraitSpecificationFor: std::io::BufRead;
    fn fill_buf(&mut self) -> (r: std::io::Result<&[u8]>)
       ensures (*final(self)).remaining() == (*old(self)).remaining(),
         r matches Ok(b) ==> b@.is_prefix_of((*old(self)).remaining()) && (b@.len() == 0 ==> (*old(self)).remaining().len() == 0);
    fn consume(&mut self, amt: usize)
       requires amt <= (*old(self)).remaining().len(),
       ensures (*final(self)).remaining() == (*old(self)).remaining().skip(amt as int);
}

#[verifier::external_trait_specification]
pub trait ExReadBytesExt: std::io::Read {
    type ExternalTraitSpecificationFor: byteorder::ReadBytesExt;
    fn read_u8(&mut self) -> (r: std::io::Result<u8>)
       ensures
         (*old(self)).remaining().len() > 0 ==> (r matches Ok(b) && b == (*old(self)).remaining()[0] && (*final(self)).remaining() == (*old(self)).remaining().skip(1)),
         (*old(self)).remaining().len() == 0 ==> r.is_err() && (*final(self)).remaining() == (*old(self)).remaining();
}


fn g<R: io::BufRead>(r: &mut R) -> (res: io::Result<u8>)
  ensures res.is_ok() ==> (*final(r)).remaining() == (*old(r)).remaining().skip(1)
{
    let b = r.read_u8()?;
    Ok(b)
}
pub struct RD2<'a, R: io::BufRead> { pub stream: &'a mut R, pub x: u32 }
fn h<'a, R: io::BufRead>(d: &mut RD2<'a, R>) -> (res: io::Result<u8>)
  ensures res.is_ok() ==> (*final(d).stream).remaining() == (*old(d).stream).remaining().skip(1)
{
    let b = d.stream.read_u8()?;
    Ok(b)
}
fn h2<'a, R: io::BufRead>(d: &mut RD2<'a, R>) -> (res: io::Result<u8>)
  ensures res.is_ok() ==> (*final(d).stream).remaining() == (*old(d).stream).remaining().skip(1)
{
    let b = g(d.stream)?;
    Ok(b)
}
} // verus!
fn main() {}
