#![allow(unused_imports, dead_code)]
use vstd::prelude::*;
use std::io;
verus! {

pub uninterp spec fn tz(x: usize) -> u32;
pub assume_specification [usize::trailing_zeros] (x: usize) -> (r: u32)
    ensures r == tz(x), r <= 64;
pub struct RD { pub range: u32, pub code: u32 }

impl RD {
    pub fn decode_bit(&mut self, prob: &mut u16, update: bool) -> (r: bool)
        requires *old(prob) <= 0x800,
        ensures *final(prob) <= 0x800,
    {
        let bound: u32 = (self.range >> 11) * (*prob as u32);
        if self.code < bound {
            if update {
                *prob += (0x800_u16 - *prob) >> 5;
            }
            self.range = bound;
            false
        } else {
            if update {
                *prob -= *prob >> 5;
            }
            self.code -= bound;
            self.range -= bound;
            true
        }
    }

    fn parse_bit_tree(
        &mut self,
        num_bits: usize,
        probs: &mut [u16],
        update: bool,
    ) -> u32 
        requires num_bits <= 8, old(probs).len() == (1usize << num_bits),
    {
        let mut tmp: u32 = 1;
        for _ in 0..num_bits {
            let bit = self.decode_bit(&mut probs[tmp as usize], update);
            tmp = (tmp << 1) ^ (bit as u32);
        }
        tmp - (1 << num_bits)
    }
}

pub struct BitTree<const PROBS_ARRAY_LEN: usize> {
    probs: [u16; PROBS_ARRAY_LEN],
}

impl<const PROBS_ARRAY_LEN: usize> BitTree<PROBS_ARRAY_LEN> {
    pub fn new() -> Self {
        BitTree {
            probs: [0x400; PROBS_ARRAY_LEN],
        }
    }
    exec const NUM_BITS: usize = PROBS_ARRAY_LEN.trailing_zeros() as usize;

    pub fn parse(
        &mut self,
        rangecoder: &mut RD,
        update: bool,
    ) -> u32 {
        rangecoder.parse_bit_tree(Self::NUM_BITS, &mut self.probs, update)
    }
}

pub struct DS {
    is_match: [u16; 192],
    state: usize,
    pos_slot_decoder: [BitTree<{ 1 << 6 }>; 4],
}
impl DS {
    fn step(&mut self, rc: &mut RD, pos_state: usize, update: bool) -> bool 
      requires old(self).state < 12, pos_state < 16,
    {
        if !rc.decode_bit(
            &mut self.is_match[(self.state << 4) + pos_state],
            update,
        ) { return false; }
        let x = self.pos_slot_decoder[2].parse(rc, update);
        true
    }
}

} // verus!
fn main() {}
