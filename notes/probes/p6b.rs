#![allow(unused_imports, dead_code)]
use vstd::prelude::*;
use std::io;
use byteorder::{BigEndian, ReadBytesExt};
verus! {

#[verifier::external_type_specification]
#[verifier::external_body]
pub struct ExIoError(std::io::Error);

#[verifier::external_trait_specification]
#[verifier::external_trait_extension(ReadSpec via ReadSpecImpl)]
pub trait ExRead {
    type ExternalTraitSpecificationFor: std::io::Read;
    spec fn remaining(&self) -> Seq<u8>;
}

#[verifier::external_trait_specification]
pub trait ExBufRead: std::io::Read {
    type ExternalTraitSpecificationFor: std::io::BufRead;
    fn fill_buf(&mut self) -> (r: std::io::Result<&[u8]>)
       ensures (*final(self)).remaining() == (*old(self)).remaining(),
         r matches Ok(b) ==> b@.is_prefix_of((*old(self)).remaining()) && (b@.len() == 0 ==> (*old(self)).remaining().len() == 0);
    fn consume(&mut self, amt: usize)
       requires amt <= (*old(self)).remaining().len(),
       ensures (*final(self)).remaining() == (*old(self)).remaining().skip(amt as int);
}

#[verifier::external_trait_specification]
pub trait ExReadBytesExt: std::io::Read {
    type ExternalTraitSpecificationFor: byteorder::ReadBytesExt;
    fn read_u8(&mut self) -> (r: std::io::Result<u8>)
       ensures
         (*old(self)).remaining().len() > 0 ==> (r matches Ok(b) && b == (*old(self)).remaining()[0] && (*final(self)).remaining() == (*old(self)).remaining().skip(1)),
         (*old(self)).remaining().len() == 0 ==> r.is_err() && (*final(self)).remaining() == (*old(self)).remaining();
}

pub struct RangeDecoder<'a, R>
where
    R: 'a + io::BufRead,
{
    pub stream: &'a mut R,
    pub range: u32,
    pub code: u32,
}

impl<'a, R> RangeDecoder<'a, R>
where
    R: io::BufRead,
{
    fn normalize(&mut self) -> (r: io::Result<()>) 
      ensures r.is_ok() && old(self).range < 0x0100_0000 ==> final(self).stream.remaining() == old(self).stream.remaining().skip(1)
    {
        if self.range < 0x0100_0000 {
            self.range <<= 8;
            let ghost pre = self.stream.remaining();
            let b = self.stream.read_u8()?;
            assert(self.stream.remaining() == pre.skip(1));
            self.code = (self.code << 8) ^ (b as u32);
        }
        Ok(())
    }
}

} // verus!
fn main() {}
