#![allow(unused_imports, dead_code, unused_variables)]
use vstd::prelude::*;
verus! {

#[verifier::external_type_specification]
#[verifier::external_body]
pub struct ExIoError(std::io::Error);

#[verifier::external_trait_specification]
#[verifier::external_trait_extension(WriteSpec via WriteSpecImpl)]
pub trait ExWrite {
    type ExternalTraitSpecificationFor: std::io::Write;
    spec fn written(&self) -> Seq<u8>;
    spec fn infallible(&self) -> bool;
    fn write_all(&mut self, buf: &[u8]) -> (r: std::io::Result<()>)
        ensures
            r.is_ok() ==> (*final(self)).written() == (*old(self)).written() + buf@,
            (*old(self)).infallible() ==> r.is_ok(),
            (*final(self)).infallible() == (*old(self)).infallible(),
            r.is_err() ==> (*old(self)).written().is_prefix_of((*final(self)).written())
                        && (*final(self)).written().is_prefix_of((*old(self)).written() + buf@);
    fn flush(&mut self) -> (r: std::io::Result<()>)
        ensures (*final(self)).written() == (*old(self)).written(),
            (*old(self)).infallible() ==> r.is_ok(),
            (*final(self)).infallible() == (*old(self)).infallible();
}

#[verifier::external_body]
pub fn fmt_stub() -> String { String::new() }

pub mod error {
use vstd::prelude::*;
use std::{io, result};
pub enum Error {
    IoError(io::Error),
    HeaderTooShort(io::Error),
    LzmaError(String),
    XzError(String),
}
pub type Result<T> = result::Result<T, Error>;
impl From<io::Error> for Error {
    fn from(e: io::Error) -> Error {
        Error::IoError(e)
    }
}
impl vstd::std_specs::convert::FromSpecImpl<io::Error> for Error {
    open spec fn obeys_from_spec() -> bool { true }
    open spec fn from_spec(e: io::Error) -> Error { Error::IoError(e) }
}
}

pub mod lzbuffer {
use vstd::prelude::*;
use crate::error;
use crate::WriteSpec;
use std::io;

pub open spec fn lz_copy(s: Seq<u8>, len: nat, dist: int) -> Seq<u8>
    decreases len
{
    if len == 0 { s } else { lz_copy(s.push(s[s.len() - dist]), (len - 1) as nat, dist) }
}

/// A circular buffer for LZ sequences
pub struct LzCircularBuffer<W>
where
    W: io::Write,
{
    /// Output sink
    stream: W,
    /// Circular buffer
    buf: Vec<u8>,
    /// Length of the buffer
    dict_size: usize,
    /// Buffer memory limit
    memlimit: usize,
    /// Current position
    cursor: usize,
    /// Total number of bytes sent through the buffer
    len: usize,
}

impl<W> LzCircularBuffer<W>
where
    W: io::Write,
{
    pub closed spec fn full(&self) -> Seq<u8> {
        self.stream.written() + self.buf@.subrange(0, self.cursor as int)
    }
    pub closed spec fn wf(&self) -> bool {
        &&& self.dict_size > 0
        &&& self.cursor < self.dict_size
        &&& self.len < self.dict_size ==> self.cursor == self.len && self.buf@.len() == self.len
        &&& self.len >= self.dict_size ==> self.buf@.len() == self.dict_size
        &&& self.buf@.len() <= self.memlimit
        &&& self.stream.written().len() + self.cursor >= self.len
        &&& forall|i: int| self.cursor <= i < self.buf@.len() ==>
               self.buf@[i] == #[trigger] self.stream.written()[self.stream.written().len() - self.dict_size + i]
    }

    fn get(&self, index: usize) -> (r: u8)
        ensures index < self.buf@.len() ==> r == self.buf@[index as int],
                index >= self.buf@.len() ==> r == 0,
    {
        *self.buf.get(index).unwrap_or(&0)
    }

    fn set(&mut self, index: usize, value: u8) -> (r: error::Result<()>)
        requires index <= old(self).buf@.len(), index < usize::MAX,
        ensures
            r is Ok ==> final(self).buf@ == (if index < old(self).buf@.len() { old(self).buf@.update(index as int, value) } else { old(self).buf@.push(value) }),
            r is Ok ==> final(self).buf@.len() <= final(self).memlimit || index < old(self).buf@.len(),
            r is Err ==> r matches Err(error::Error::LzmaError(_)),
            r is Err ==> *final(self) == *old(self),
            r is Err <==> index == old(self).buf@.len() && index + 1 > old(self).memlimit,
            final(self).stream == old(self).stream, final(self).dict_size == old(self).dict_size, final(self).memlimit == old(self).memlimit,
            final(self).cursor == old(self).cursor, final(self).len == old(self).len,
    {
        let new_len = index + 1;

        if self.buf.len() < new_len {
            if new_len <= self.memlimit {
                self.buf.resize(new_len, 0);
            } else {
                return Err(error::Error::LzmaError(crate::fmt_stub()));
            }
        }
        self.buf[index] = value;
        proof {
            assert(final(self).buf@ =~= (if index < old(self).buf@.len() { old(self).buf@.update(index as int, value) } else { old(self).buf@.push(value) }));
        }
        Ok(())
    }

    fn append_literal(&mut self, lit: u8) -> (r: error::Result<()>)
        requires old(self).wf(), old(self).len < usize::MAX,
        ensures
            r is Ok ==> final(self).wf() && final(self).full() == old(self).full().push(lit) && final(self).len == old(self).len + 1,
            r is Err ==> old(self).stream.written().is_prefix_of(final(self).stream.written())
                 && final(self).stream.written().is_prefix_of(old(self).full().push(lit)),
            old(self).stream.infallible() ==> (r is Err <==> old(self).len < old(self).dict_size && old(self).len + 1 > old(self).memlimit),
            final(self).dict_size == old(self).dict_size, final(self).memlimit == old(self).memlimit,
            final(self).stream.infallible() == old(self).stream.infallible(),
    {
        self.set(self.cursor, lit)?;
        self.cursor += 1;
        self.len += 1;

        // Flush the circular buffer to the output
        if self.cursor == self.dict_size {
            proof {
                assert(self.buf@.subrange(0, self.cursor as int) =~= self.buf@);
                assert(old(self).buf@.subrange(0, old(self).cursor as int).push(lit) =~= self.buf@);
            }
            self.stream.write_all(self.buf.as_slice())?;
            self.cursor = 0;
            proof {
                assert(self.full() =~= old(self).full().push(lit));
                let w = self.stream.written();
                assert forall|i: int| 0 <= i < self.buf@.len() implies self.buf@[i] == #[trigger] w[w.len() - self.dict_size + i] by {
                }
                assert(self.wf());
            }
        } else {
            proof {
                assert(self.full() =~= old(self).full().push(lit));
                assert(self.wf());
            }
        }

        Ok(())
    }
}
}

} // verus!
fn main() {}
