use vstd::prelude::*;
verus! {

pub enum Error { IoError(IoErr), LzmaError }
pub struct IoErr { pub k: u8 }
pub type Result<T> = core::result::Result<T, Error>;
pub type IoResult<T> = core::result::Result<T, IoErr>;

impl core::convert::From<IoErr> for Error {
    fn from(e: IoErr) -> Error { Error::IoError(e) }
}

impl vstd::std_specs::convert::FromSpecImpl<IoErr> for Error {
    open spec fn obeys_from_spec() -> bool { true }
    open spec fn from_spec(e: IoErr) -> Error { Error::IoError(e) }
}
pub trait Sink {
    spec fn written(&self) -> Seq<u8>;
    fn write_all(&mut self, buf: &[u8]) -> (r: IoResult<()>)
        ensures
            r.is_ok() ==> final(self).written() == old(self).written() + buf@,
    ;
}

fn f<W: Sink>(w: &mut W, b: &[u8]) -> (r: Result<()>)
  ensures r.is_ok() ==> final(w).written() == old(w).written() + b@,
{
    w.write_all(b)?;
    Ok(())
}

} // verus!
fn main() {}
