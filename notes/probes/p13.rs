use vstd::prelude::*;
verus! {
pub struct Holder<'a> { pub r: &'a mut u32, pub k: u32 }

fn bump(h: &mut Holder) 
   requires *old(h).r < 100,
   ensures *final(h).r == *old(h).r + 1, final(h).k == old(h).k, mut_ref_future(final(h).r) == mut_ref_future(old(h).r)
{
    *h.r = *h.r + 1;
}

fn top(x: &mut u32)
   requires *old(x) < 100,
   ensures *final(x) == *old(x) + 1,
{
    let mut h = Holder { r: x, k: 0 };
    bump(&mut h);
}

fn top2(x: &mut u32)
   requires *old(x) < 100,
   ensures *final(x) == *old(x) + 1,
{
    let mut h = Holder { r: x, k: 0 };
    bump(&mut h);
    let Holder { r, k } = h;
}
}
fn main() {}
