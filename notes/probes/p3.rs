#![allow(unused_imports, dead_code)]
use vstd::prelude::*;
use std::io;
verus! {

#[verifier::external_type_specification]
#[verifier::external_body]
pub struct ExIoError(std::io::Error);

#[verifier::external_trait_specification]
#[verifier::external_trait_extension(WriteSpec via WriteSpecImpl)]
pub trait ExWrite {
    type ExternalTraitSpecificationFor: std::io::Write;
    spec fn written(&self) -> Seq<u8>;
    fn write_all(&mut self, buf: &[u8]) -> (r: std::io::Result<()>)
        ensures
            r.is_ok() ==> final(self).written() == old(self).written() + buf@,
    ;
    fn flush(&mut self) -> (r: std::io::Result<()>)
        ensures final(self).written() == old(self).written();
}

pub mod error {
    use vstd::prelude::*;
    use std::io;
    pub enum Error {
        IoError(io::Error),
        HeaderTooShort(io::Error),
        LzmaError(String),
        XzError(String),
    }
    pub type Result<T> = core::result::Result<T, Error>;
    impl From<io::Error> for Error {
        fn from(e: io::Error) -> Error {
            Error::IoError(e)
        }
    }
    impl vstd::std_specs::convert::FromSpecImpl<io::Error> for Error {
        open spec fn obeys_from_spec() -> bool { true }
        open spec fn from_spec(e: io::Error) -> Error { Error::IoError(e) }
    }
}

#[verifier::external_body]
pub fn fmt_stub() -> String { String::new() }

pub trait LzBuffer<W>
where
    W: io::Write,
{
    fn len(&self) -> usize;

    /// Retrieve the last byte or return a default.
    fn last_or(&self, lit: u8) -> u8;

    /// Retrieve the n-th last byte.
    fn last_n(&self, dist: usize) -> error::Result<u8>;

    /// Append a literal.
    fn append_literal(&mut self, lit: u8) -> error::Result<()>;

    /// Fetch an LZ sequence (length, distance) from inside the buffer.
    fn append_lz(&mut self, len: usize, dist: usize) -> error::Result<()>;

    /// Consumes this buffer and flushes any data.
    fn finish(self) -> io::Result<W>;
}

/// An accumulating buffer for LZ sequences.
pub struct LzAccumBuffer<W>
where
    W: io::Write,
{
    /// Output sink
    stream: W,
    /// Buffer
    buf: Vec<u8>,
    /// Buffer memory limit
    memlimit: usize,
    /// Total number of bytes sent through the buffer
    len: usize,
}

impl<W> LzAccumBuffer<W>
where
    W: io::Write,
{
    pub fn from_stream(stream: W, memlimit: usize) -> Self {
        Self {
            stream,
            buf: Vec::new(),
            memlimit,
            len: 0,
        }
    }

    /// Append bytes.
    pub fn append_bytes(&mut self, buf: &[u8]) {
        self.buf.extend_from_slice(buf);
        self.len += buf.len();
    }

    /// Reset the internal dictionary.
    pub fn reset(&mut self) -> io::Result<()> {
        self.stream.write_all(self.buf.as_slice())?;
        self.buf.clear();
        self.len = 0;
        Ok(())
    }
}

impl<W> LzBuffer<W> for LzAccumBuffer<W>
where
    W: io::Write,
{
    fn len(&self) -> usize {
        self.len
    }

    fn last_or(&self, lit: u8) -> u8 {
        let buf_len = self.buf.len();
        if buf_len == 0 {
            lit
        } else {
            self.buf[buf_len - 1]
        }
    }

    fn last_n(&self, dist: usize) -> error::Result<u8> {
        let buf_len = self.buf.len();
        if dist > buf_len {
            return Err(error::Error::LzmaError(fmt_stub()));
        }

        Ok(self.buf[buf_len - dist])
    }

    fn append_literal(&mut self, lit: u8) -> error::Result<()> {
        let new_len = self.len + 1;

        if new_len > self.memlimit {
            Err(error::Error::LzmaError(fmt_stub()))
        } else {
            self.buf.push(lit);
            self.len = new_len;
            Ok(())
        }
    }

    fn append_lz(&mut self, len: usize, dist: usize) -> error::Result<()> {
        let buf_len = self.buf.len();
        if dist > buf_len {
            return Err(error::Error::LzmaError(fmt_stub()));
        }

        let mut offset = buf_len - dist;
        for _ in 0..len {
            let x = self.buf[offset];
            self.buf.push(x);
            offset += 1;
        }
        self.len += len;
        Ok(())
    }

    fn finish(self) -> io::Result<W> {
        let mut this = self;
        this.stream.write_all(this.buf.as_slice())?;
        this.stream.flush()?;
        Ok(this.stream)
    }
}

/// A circular buffer for LZ sequences
pub struct LzCircularBuffer<W>
where
    W: io::Write,
{
    /// Output sink
    stream: W,
    /// Circular buffer
    buf: Vec<u8>,
    /// Length of the buffer
    dict_size: usize,
    /// Buffer memory limit
    memlimit: usize,
    /// Current position
    cursor: usize,
    /// Total number of bytes sent through the buffer
    len: usize,
}

impl<W> LzCircularBuffer<W>
where
    W: io::Write,
{
    pub fn from_stream(stream: W, dict_size: usize, memlimit: usize) -> Self {
        Self {
            stream,
            buf: Vec::new(),
            dict_size,
            memlimit,
            cursor: 0,
            len: 0,
        }
    }

    fn get(&self, index: usize) -> u8 {
        *self.buf.get(index).unwrap_or(&0)
    }

    fn set(&mut self, index: usize, value: u8) -> error::Result<()> {
        let new_len = index + 1;

        if self.buf.len() < new_len {
            if new_len <= self.memlimit {
                self.buf.resize(new_len, 0);
            } else {
                return Err(error::Error::LzmaError(fmt_stub()));
            }
        }
        self.buf[index] = value;
        Ok(())
    }
}

impl<W> LzBuffer<W> for LzCircularBuffer<W>
where
    W: io::Write,
{
    fn len(&self) -> usize {
        self.len
    }

    fn last_or(&self, lit: u8) -> u8 {
        if self.len == 0 {
            lit
        } else {
            self.get((self.dict_size + self.cursor - 1) % self.dict_size)
        }
    }

    fn last_n(&self, dist: usize) -> error::Result<u8> {
        if dist > self.dict_size {
            return Err(error::Error::LzmaError(fmt_stub()));
        }
        if dist > self.len {
            return Err(error::Error::LzmaError(fmt_stub()));
        }

        let offset = (self.dict_size + self.cursor - dist) % self.dict_size;
        Ok(self.get(offset))
    }

    fn append_literal(&mut self, lit: u8) -> error::Result<()> {
        self.set(self.cursor, lit)?;
        self.cursor += 1;
        self.len += 1;

        // Flush the circular buffer to the output
        if self.cursor == self.dict_size {
            self.stream.write_all(self.buf.as_slice())?;
            self.cursor = 0;
        }

        Ok(())
    }

    fn append_lz(&mut self, len: usize, dist: usize) -> error::Result<()> {
        if dist > self.dict_size {
            return Err(error::Error::LzmaError(fmt_stub()));
        }
        if dist > self.len {
            return Err(error::Error::LzmaError(fmt_stub()));
        }

        let mut offset = (self.dict_size + self.cursor - dist) % self.dict_size;
        for _ in 0..len {
            let x = self.get(offset);
            self.append_literal(x)?;
            offset += 1;
            if offset == self.dict_size {
                offset = 0
            }
        }
        Ok(())
    }

    fn finish(self) -> io::Result<W> {
        let mut this = self;
        if this.cursor > 0 {
            this.stream.write_all(&this.buf[0..this.cursor])?;
        }
        this.stream.flush()?;
        Ok(this.stream)
    }
}


} // verus!
fn main() {}
