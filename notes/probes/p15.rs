use vstd::prelude::*;
verus! {
pub open spec fn sp_multibyte(s: Seq<u8>, i: nat, acc: u64) -> Option<(u64, nat)>
    decreases 9 - i
{
    if i >= 9 || i >= s.len() { None }
    else {
        let b = s[i as int];
        let acc2 = acc ^ (((b & 0x7F) as u64) << ((i * 7) as u64));
        if b & 0x80 == 0 { Some((acc2, i + 1)) } else { sp_multibyte(s, i + 1, acc2) }
    }
}
pub open spec fn bound(range: u32, p: u16) -> u32 { ((range >> 11) * (p as u32)) as u32 }
pub open spec fn steps(range: u32, code: u32, p: u16, n: nat) -> (u32, u32, u16)
   decreases n
{
    if n == 0 { (range, code, p) } else {
        let b = bound(range, p);
        if code < b { steps(b, code, (p + ((0x800u16 - p) as u16 >> 5)) as u16, (n-1) as nat) }
        else { steps((range - b) as u32, (code - b) as u32, (p - (p >> 5)) as u16, (n-1) as nat) }
    }
}
proof fn test() {
    assert(sp_multibyte(seq![0x80u8, 0x01u8], 0, 0) == Some((128u64, 2nat))) by (compute);
    assert(sp_multibyte(seq![0xE5u8, 0x8Eu8, 0x26u8], 0, 0) == Some((624485u64, 3nat))) by (compute);
    assert(steps(0xFFFF_FFFFu32, 0x1234_5678u32, 0x400u16, 8).2 > 0) by (compute);
}
}
fn main() {}
