import re
from extract import load
R='/repo/src/'
def mod(name, body, indent=''):
    return f"pub mod {name} {{\nuse vstd::prelude::*;\n{body}\n}}\n"
def drop_const_assert(s):
    out='';i=0
    while True:
        j=s.find('const_assert!(',i)
        if j<0: out+=s[i:];break
        out+=s[i:j]
        k=j+len('const_assert!('); d=1
        while d>0:
            c=s[k]
            if c=='(':d+=1
            elif c==')':d-=1
            k+=1
        if s[k]==';':k+=1
        i=k
    return out
err=load(R+'error.rs')
# drop Display / std::error::Error impls (fmt machinery)
err=err[:err.index('impl Display for Error')]
err=err.replace('use std::fmt::Display;\n','')
err+="""
impl vstd::std_specs::convert::FromSpecImpl<io::Error> for Error {
    open spec fn obeys_from_spec() -> bool { true }
    open spec fn from_spec(e: io::Error) -> Error { Error::IoError(e) }
}
"""
vec2d=load(R+'util/vec2d.rs')
lzb=load(R+'decode/lzbuffer.rs')
rc=drop_const_assert(load(R+'decode/rangecoder.rs')).replace('use crate::util::const_assert;\n','')
rc=rc.replace('    const NUM_BITS: usize =','    exec const NUM_BITS: usize =')
dutil=load(R+'decode/util.rs')
dutil='use crate::crc;\n'+dutil
lz=load(R+'decode/lzma.rs')
opts=load(R+'decode/options.rs')
l2=load(R+'decode/lzma2.rs')
dxz=load(R+'decode/xz.rs')
st=load(R+'decode/stream.rs')
xzmod=load(R+'xz/mod.rs').replace('pub(crate) mod crc;\npub(crate) mod footer;\npub(crate) mod header;\n','')
xzh=load(R+'xz/header.rs'); xzf=load(R+'xz/footer.rs'); xzc=load(R+'xz/crc.rs')
e_dumb=load(R+'encode/dumbencoder.rs'); e_l2=load(R+'encode/lzma2.rs'); e_xz=load(R+'encode/xz.rs'); e_util='use crate::crc;\n'+load(R+'encode/util.rs'); e_opt=load(R+'encode/options.rs'); e_rc=load(R+'encode/rangecoder.rs')
head=open('head_all.rs').read()
out=head+mod('error',err)+"pub mod util {\n"+mod('vec2d',vec2d)+"}\n"+"pub mod decode {\n"+mod('lzbuffer',lzb)+mod('rangecoder',rc)+mod('util',dutil)+mod('lzma',lz)+mod('options',opts)+mod('lzma2',l2)+mod('xz',dxz)+mod('stream',st)+"}\n"+"pub mod xz {\n"+xzmod+mod('crc',xzc)+mod('footer',xzf)+mod('header',xzh)+"}\n"+"pub mod encode {\n"+mod('dumbencoder',e_dumb)+mod('lzma2',e_l2)+mod('xz',e_xz)+mod('util',e_util)+mod('options',e_opt)+mod('rangecoder',e_rc)+"}\npub mod compress { pub use crate::encode::options::*; }\n"+"pub mod decompress { pub use crate::decode::options::*; }\n"+"\n} // verus!\nfn main() {}\n"
open('all2.rs','w').write(out)
