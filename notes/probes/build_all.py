import re
from extract import load
R='/repo/src/'
def mod(name, body, indent=''):
    return f"pub mod {name} {{\nuse vstd::prelude::*;\n{body}\n}}\n"
def drop_const_assert(s):
    out='';i=0
    while True:
        j=s.find('const_assert!(',i)
        if j<0: out+=s[i:];break
        out+=s[i:j]
        k=j+len('const_assert!('); d=1
        while d>0:
            c=s[k]
            if c=='(':d+=1
            elif c==')':d-=1
            k+=1
        if s[k]==';':k+=1
        i=k
    return out
err=load(R+'error.rs')
# drop Display / std::error::Error impls (fmt machinery)
err=err[:err.index('impl Display for Error')]
err=err.replace('use std::fmt::Display;\n','')
err+="""
impl vstd::std_specs::convert::FromSpecImpl<io::Error> for Error {
    open spec fn obeys_from_spec() -> bool { true }
    open spec fn from_spec(e: io::Error) -> Error { Error::IoError(e) }
}
"""
vec2d=load(R+'util/vec2d.rs')
lzb=load(R+'decode/lzbuffer.rs')
rc=drop_const_assert(load(R+'decode/rangecoder.rs')).replace('use crate::util::const_assert;\n','')
rc=rc.replace('    const NUM_BITS: usize =','    exec const NUM_BITS: usize =')
dutil=load(R+'decode/util.rs')
dutil=dutil[:dutil.index('/// An [`io::Read`] computing a digest')]+dutil[dutil.index('/// An [`io::BufRead`] counting'):]
lz=load(R+'decode/lzma.rs')
opts=load(R+'decode/options.rs')
head=open('head_all.rs').read()
out=head+mod('error',err)+"pub mod util {\n"+mod('vec2d',vec2d)+"}\n"+"pub mod decode {\n"+mod('lzbuffer',lzb)+mod('rangecoder',rc)+mod('util',dutil)+mod('lzma',lz)+mod('options',opts)+"}\n"+"pub mod decompress { pub use crate::decode::options::*; }\n"+"\n} // verus!\nfn main() {}\n"
open('all.rs','w').write(out)
