import re,sys
def strip_macros(body):
    # remove lzma_*!( ... ); statements (multi-line)
    out='';i=0
    while True:
        m=re.search(r'lzma_(debug|info|trace)!\(',body[i:])
        if not m: out+=body[i:];break
        j=i+m.start(); out+=body[i:j]
        k=i+m.end(); d=1
        while d>0:
            c=body[k]
            if c=='(':d+=1
            elif c==')':d-=1
            k+=1
        # skip optional ;
        if body[k]==';':k+=1
        i=k
    return out
def repl_format(s):
    out='';i=0
    while True:
        j=s.find('format!(',i)
        if j<0: out+=s[i:];break
        out+=s[i:j]+'crate::fmt_stub()'
        k=j+len('format!('); d=1
        while d>0:
            c=s[k]
            if c=='(':d+=1
            elif c==')':d-=1
            k+=1
        i=k
    return out
def strip_tests(s):
    j=s.find('#[cfg(test)]\nmod test')
    return s if j<0 else s[:j]
def mut_self(s):
    out='';i=0
    while True:
        m=re.search(r'fn (\w+)(<[^>]*>)?\(mut self[,)]',s[i:])
        if not m: out+=s[i:];break
        j=i+m.start(); out+=s[i:j]
        k=s.index('{',j)
        sig=s[j:k].replace('mut self','self',1)
        d=0;e=k
        while True:
            if s[e]=='{':d+=1
            elif s[e]=='}':
                d-=1
                if d==0:break
            e+=1
        body=re.sub(r'\bself\b','this',s[k+1:e])
        out+=sig+'{\n        let mut this = self;'+body+'}'
        i=e+1
    return out
def load(path):
    s=open(path).read()
    s=re.sub(r'^//!.*\n','',s,flags=re.M); s=strip_tests(s); s=strip_macros(s); s=repl_format(s); s=mut_self(s)
    s=s.replace('.map_err(error::Error::HeaderTooShort)','.map_err(|e| error::Error::HeaderTooShort(e))')
    s=re.sub(r'^use byteorder::WriteBytesExt;\n','use crate::shim::WriteBytesShim;\n',s,flags=re.M)
    s=re.sub(r'^use byteorder::\{[^}]*WriteBytesExt\};\n','use crate::shim::WriteBytesShim;\n',s,flags=re.M)
    s=re.sub(r'\.write_(u16|u32|u64)::<(Big|Little)Endian>\(',lambda m: '.write_%s_%s('%(m.group(1),'be' if m.group(2)=='Big' else 'le'),s)
    s=re.sub(r'^use crc::\{[^}]*\};\n','use crate::crc::{Crc, CRC_32_ISO_HDLC, CRC_64_XZ};\n',s,flags=re.M)
    s=re.sub(r'^use byteorder::\{[^}]*\};\n','use crate::shim::ReadBytesShim;\n',s,flags=re.M)
    s=re.sub(r'\.read_(u16|u32|u64)::<(Big|Little)Endian>\(\)',lambda m: '.read_%s_%s()'%(m.group(1),'be' if m.group(2)=='Big' else 'le'),s)
    s=re.sub(r'(const \w+): &\[u8\]',r"\1: &'static [u8]",s)
    s=s.replace('let index_size = loop {','let index_size: usize;\n    loop {').replace('break index_size;','break;').replace('let index_size = count_input.count();','index_size = count_input.count();').replace('        )?;\n    };\n\n    let crc32 = input.read_u32_le()?;','        )?;\n    }\n\n    let crc32 = input.read_u32_le()?;')
    return s
if __name__=='__main__':
    print(load(sys.argv[1]))
