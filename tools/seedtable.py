#!/usr/bin/env python3
"""Merge seeded/RESULTS*.json and print the markdown table for DESIGN.md A.7."""
import json, glob, os, sys
V = os.path.dirname(os.path.dirname(os.path.abspath(__file__)))
res = {}
for f in sorted(glob.glob(os.path.join(V, 'seeded', 'RESULTS*.json'))):
    if f.endswith('RESULTS.json') and len(glob.glob(os.path.join(V, 'seeded', 'RESULTS.*of*.json'))):
        pass
    res.update(json.load(open(f)))
print('| change | round | what it breaks (one line) | own check | failed obligations (own) | also reported by | undecided |')
print('|---|---|---|---|---|---|---|')
det = miss = und = 0
for mid in sorted(res):
    row = res[mid]
    prop = mid.split('-')[0]
    meta = json.load(open(os.path.join(V, 'seeded', mid, 'meta.json')))
    what = meta['summary'].split('. ')[0][:150].replace('|', '/')
    own = row.get(prop, {})
    st = {1: 'detected', 0: '**missed**', 2: 'undecided'}.get(own.get('exit'), 'n/a')
    det += own.get('exit') == 1; miss += own.get('exit') == 0; und += own.get('exit') == 2
    others = [p for p, v in sorted(row.items()) if p != prop and v['exit'] == 1]
    unds = [p for p, v in sorted(row.items()) if p != prop and v['exit'] == 2]
    print('| %s | %s | %s | %s | %s | %s | %s |' % (mid, meta.get('round', 1), what, st, ', '.join(o for o in own.get('obligations', []) if o != 'None')[:90],
                                            ' '.join(others) or '-', ' '.join(unds) or '-'))
print()
print('own property: %d detected, %d missed, %d undecided of %d' % (det, miss, und, len(res)))
json.dump(res, open(os.path.join(V, 'seeded', 'RESULTS.json'), 'w'), indent=1)
