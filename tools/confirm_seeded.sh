#!/bin/bash
# Confirm each seeded mutation in a scratch worktree of /repo (HEAD incl. fix commits):
#  builds (default + features), baseline tests pass with patch, demo fails with patch, passes without.
set -u
WT=/tmp/wt/confirm
LOG=/tmp/wt/confirm.log
cd /repo && git worktree remove --force $WT 2>/dev/null; git worktree add -q --detach $WT HEAD || exit 1
: > $LOG
for d in /tmp/wt/out-*/[AB]; do
  id=$(basename $(dirname $d) | sed 's/out-//')-$(basename $d)
  cd $WT && git checkout -q -- . && git clean -fdq tests/ examples/ 2>/dev/null
  cp $d/demo.rs tests/demo.rs
  demo_without=$(cargo test --offline --features stream,raw_decoder --test demo 2>&1 | grep -E "^test result" | tail -1)
  if git apply $d/patch.diff 2>/dev/null || git apply -3 $d/patch.diff 2>/dev/null; then :; else echo "$id APPLY-FAILED" >> $LOG; continue; fi
  git diff -- src > /tmp/wt/rebased-$id.diff
  b1=$(cargo build --offline 2>&1 | tail -1)
  b2=$(cargo build --offline --features stream,raw_decoder 2>&1 | tail -1)
  mv tests/demo.rs /tmp/wt/demo.rs.tmp
  base=$(cargo test --offline --workspace --no-fail-fast 2>&1 | grep -E "^test result" | awk '{p+=$4; f+=$6} END {print p" passed "f" failed"}')
  feat=$(cargo test --offline --features stream,raw_decoder --no-fail-fast 2>&1 | grep -E "^test result" | awk '{p+=$4; f+=$6} END {print p" passed "f" failed"}')
  mv /tmp/wt/demo.rs.tmp tests/demo.rs
  demo_with=$(cargo test --offline --features stream,raw_decoder --test demo 2>&1 | grep -E "^test result" | tail -1)
  echo "$id | build: $b1 / $b2 | baseline: $base | features: $feat | demo without: $demo_without | demo with: $demo_with" >> $LOG
done
cd /repo && git worktree remove --force $WT
echo DONE >> $LOG
