#!/usr/bin/env python3
"""Put the output of tools/seedtable.py (+ the harmless summary) between the SEEDED_TABLE markers of DESIGN.md."""
import os, re, subprocess, json, sys
V = os.path.dirname(os.path.dirname(os.path.abspath(__file__)))
tab = subprocess.run([sys.executable, os.path.join(V, 'tools', 'seedtable.py')], capture_output=True, text=True).stdout
hp = os.path.join(V, 'harmless', 'RESULTS.json')
hl = ''
if os.path.exists(hp):
    h = json.load(open(hp))
    al = {k: [p for p, v in row.items() if v['exit'] == 1] for k, row in h.items()}
    un = {k: [p for p, v in row.items() if v['exit'] == 2] for k, row in h.items()}
    hl = '\nbehaviour-preserving changes: %d run against %d checks each; alarms: %s; undecided: %s\n' % (
        len(h), len(next(iter(h.values()))), {k: v for k, v in al.items() if v} or 'none', {k: v for k, v in un.items() if v} or 'none')
note = sys.argv[1] if len(sys.argv) > 1 else ''
p = os.path.join(V, 'DESIGN.md')
s = open(p).read()
s = re.sub(r'<!-- SEEDED_TABLE_BEGIN -->.*?<!-- SEEDED_TABLE_END -->',
           lambda m: '<!-- SEEDED_TABLE_BEGIN -->\n' + tab + hl + (note + '\n' if note else '') + '<!-- SEEDED_TABLE_END -->', s, flags=re.S)
open(p, 'w').write(s)
print(tab[-300:], hl)
