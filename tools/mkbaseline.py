#!/usr/bin/env python3
"""Record, for the tree the contracts were developed against, a hash of every function's generated text and of the
interface (everything outside function bodies).  Written only when the whole crate verifies (canary excepted).
vcheck uses it as a modularity filter: a function whose own text AND the interface are identical to this baseline has
the same verification condition as in the baseline run, where it was discharged; if the solver now fails on it, that
is an artefact of the tool (context pruning, seed), not a consequence of the change under test.
usage: tools/mkbaseline.py   (on the unchanged /repo; commit baseline/fnhash.json)"""
import os, sys, json
VERIF = os.path.dirname(os.path.dirname(os.path.abspath(__file__)))
sys.path.insert(0, os.path.join(VERIF, 'tools'))
import gen as genmod, runner
genfile = os.path.join(VERIF, 'gen', 'lzma_rs_verus.rs')
rep = genmod.generate(genfile)
res = runner.run_verus(genfile, seed=0)
fl, te = runner.classify(res['diags'], rep['linemap'], genfile)
real = [f for f in fl if 'vacuity_canary' not in (f.get('rendered') or '') and f.get('obligation') != 'CANARY']
if res['json'] is None or te or real or rep['lost_anchors']:
    print('NOT written: the crate does not verify cleanly on this tree', [(f.get('fn'), f.get('msg')) for f in real][:5], te[:2], rep['lost_anchors'])
    sys.exit(1)
iface, fns = runner.fn_hashes(genfile, rep['linemap'])
os.makedirs(os.path.join(VERIF, 'baseline'), exist_ok=True)
json.dump({'interface': iface, 'functions': fns, 'uncovered': rep['uncovered'], 'repo_src_sha256': rep.get('src_sha256')},
          open(os.path.join(VERIF, 'baseline', 'fnhash.json'), 'w'), indent=1, sort_keys=True)
print('baseline written:', len(fns), 'functions, interface', iface[:16])
