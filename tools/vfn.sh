#!/bin/sh
# usage: vfn.sh <module> <fn-pattern> [extra verus args]  -- regenerate and verify one function only
m=$1; f=$2; shift 2
cd /verif && python3 tools/gen.py >/dev/null && verus gen/lzma_rs_verus.rs --cfg 'feature="stream"' --cfg 'feature="raw_decoder"' --verify-only-module "$m" --verify-function "$f" --no-lifetime --triggers-mode silent --multiple-errors 20 --time "$@" 2>&1
