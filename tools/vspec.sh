#!/bin/sh
# usage: vspec.sh <fn-pattern> [extra]  -- regenerate and verify spec-library functions matching the pattern
f=$1; shift
cd /verif && python3 tools/gen.py >/dev/null && verus gen/lzma_rs_verus.rs --cfg 'feature="stream"' --cfg 'feature="raw_decoder"' --verify-only-module vspec --verify-function "$f" --no-lifetime --triggers-mode silent --multiple-errors 10 --num-threads 16 "$@" 2>&1 | grep -v "^\s*$" | grep -v "^warning: Verus does not\|autoderive\|= help: to suppress\|derive(Clone)\|^  *| *\^\^\^\^\^ *$"
