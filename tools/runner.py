"""Run Verus on the generated file, parse its JSON output, attribute failures to obligations."""
import os
import re
import sys
import json
import time
import fcntl
import hashlib
import subprocess

HERE = os.path.dirname(os.path.abspath(__file__))
sys.path.insert(0, HERE)
import gen  # noqa: E402
import overlay  # noqa: E402

VERIF = os.path.dirname(HERE)
CACHE = os.path.join(VERIF, '.cache')
VERUS_FLAGS = ['--cfg', 'feature="stream"', '--cfg', 'feature="raw_decoder"', '--multiple-errors', '8',
               '--output-json', '--time-expanded', '--error-format=json', '--no-lifetime',
               '--no-report-long-running', '--triggers-mode', 'silent']

SAFETY_MSG = re.compile(r'arithmetic underflow/overflow|division by zero|bit shift|termination|decreases|'
                        r'index out of bounds|index in bounds|unreachable|loop must have a decreases|'
                        r'precondition not met')
TOOL_MSG = re.compile(r'not supported|unsupported|does not \(?yet\)? support|cannot find|mismatched types|expected |'
                      r'no method named|unresolved|cannot call function|is not a member|cyclic|syntax|'
                      r'found a cyclic|trait bound|type annotations needed|internal error|panicked')
VERIF_FAIL_MSG = re.compile(r'postcondition not satisfied|precondition not satisfied|assertion failed|'
                            r'invariant not satisfied|assertion not satisfied|'
                            r'arithmetic underflow/overflow|division by zero|bit shift|'
                            r'could not prove termination|decreases not satisfied|'
                            r'unable to prove assertion safety condition|'
                            r'cannot prove that call to|failed this|recommendation')
RLIMIT_MSG = re.compile(r'[Rr]esource limit|rlimit|timed? ?out')


def verus_version():
    try:
        return json.load(open('/opt/veriftools/verus/version.json'))['verus']['version']
    except Exception:
        return 'unknown'


def generate(tag=None, demote=()):
    tag = tag if tag is not None else os.environ.get('VERIF_GEN_TAG', '')
    out = os.path.join(VERIF, 'gen', 'lzma_rs_verus%s.rs' % tag)
    rep = gen.generate(out, demote=demote)
    return out, rep


def tool_error_functions(diags, linemap, genfile):
    """functions (under contract) that contain the span of a non-verification (front-end) error"""
    base = os.path.basename(genfile)
    fns = set()
    other = False
    for d in diags:
        if d.get('level') != 'error':
            continue
        msg = d.get('message', '')
        if msg.startswith('aborting due to'):
            continue
        if VERIF_FAIL_MSG.search(msg) or SAFETY_MSG.search(msg) or RLIMIT_MSG.search(msg):
            continue
        hit = False
        for s in d.get('spans', []):
            if not _same_gen(s.get('file_name', ''), base):
                continue
            md = linemap.get(s['line_start'])
            if md and md.get('fn'):
                fns.add(md['fn'])
                hit = True
        if not hit:
            other = True
    return fns, other


def _run(genfile, seed, threads):
    cmd = ['verus', genfile] + VERUS_FLAGS + ['--num-threads', str(threads)]
    if seed:
        cmd += ['--smt-option', 'smt.random_seed=%d' % seed]
    t0 = time.time()
    p = subprocess.run(cmd, capture_output=True, text=True, cwd=VERIF)
    return cmd, p.returncode, p.stdout, p.stderr, time.time() - t0


def _same_gen(file_name, base):
    """results are cached by the CONTENT of the generated file, which may have been produced under another name
    (lzma_rs_verus<tag>.rs, spec_only<tag>.rs): any generated file of the same family counts as `the` file"""
    b = os.path.basename(file_name)
    if b == base:
        return True
    fam = lambda x: 'spec' if x.startswith('spec_only') else ('crate' if x.startswith('lzma_rs_verus') else x)
    return fam(b) == fam(base) and fam(b) in ('spec', 'crate')


def run_verus(genfile, seed=0, threads=16, use_cache=True):
    """Return dict(cmd, rc, json, diags, wall_s, cached)."""
    os.makedirs(CACHE, exist_ok=True)
    h = hashlib.sha256()
    h.update(open(genfile, 'rb').read())
    h.update(('|%s|%d|%s' % (verus_version(), seed, ' '.join(VERUS_FLAGS))).encode())
    key = h.hexdigest()[:32]
    cpath = os.path.join(CACHE, key + '.json')
    lock = open(os.path.join(CACHE, 'lock' + os.environ.get('VERIF_GEN_TAG', '')), 'w')
    fcntl.flock(lock, fcntl.LOCK_EX)
    try:
        if use_cache and os.path.exists(cpath):
            try:
                r = json.load(open(cpath))
                r['cached'] = True
                return r
            except Exception:
                pass        # removed or half-written by a concurrent run: treat as a miss
        cmd, rc, out, err, wall = _run(genfile, seed, threads)
        try:
            js = json.loads(out) if out.strip() else None
        except Exception:
            js = None
        diags = []
        for line in err.splitlines():
            line = line.strip()
            if line.startswith('{'):
                try:
                    diags.append(json.loads(line))
                except Exception:
                    pass
        r = {'cmd': ' '.join(cmd), 'rc': rc, 'json': js, 'diags': diags, 'wall_s': wall, 'cached': False,
             'stderr_tail': err[-2000:] if js is None else ''}
        tmp = cpath + '.%d' % os.getpid()
        json.dump(r, open(tmp, 'w'))
        os.replace(tmp, cpath)
        # keep the cache small
        try:
            ents = []
            for f in os.listdir(CACHE):
                if f.endswith('.json'):
                    try:
                        ents.append((os.path.getmtime(os.path.join(CACHE, f)), f))
                    except OSError:
                        pass
            for _, f in sorted(ents)[:-400]:
                try:
                    os.remove(os.path.join(CACHE, f))
                except OSError:
                    pass
        except OSError:
            pass
        return r
    finally:
        fcntl.flock(lock, fcntl.LOCK_UN)
        lock.close()


def func_results(js):
    """function-breakdown flattened: name -> dict(success, time_ms, rlimit, mode)."""
    res = {}
    if not js:
        return res
    for m in js.get('times-ms', {}).get('smt', {}).get('smt-run-module-times', []):
        for f in m.get('function-breakdown', []):
            name = f['function']
            name = re.sub(r'^lzma_rs_verus\w*::', '', name)
            cur = res.get(name)
            ent = {'success': f['success'], 'time_ms': f.get('time', 0), 'rlimit': f.get('rlimit', 0),
                   'mode': f.get('mode:', f.get('mode', ''))}
            if cur:
                ent['success'] = cur['success'] and ent['success']
                ent['time_ms'] += cur['time_ms']
                ent['rlimit'] += cur['rlimit']
            res[name] = ent
    return res


def classify(diags, linemap, genfile):
    """Return (failures, tool_errors).  failure = dict(fn, kind, msg, line, text, obligation, props,
    callee_clause)."""
    failures, tool_errors = [], []
    base = os.path.basename(genfile)
    for d in diags:
        if d.get('level') != 'error':
            continue
        msg = d.get('message', '')
        if msg.startswith('aborting due to') or msg.startswith('For more information'):
            continue
        spans = [s for s in d.get('spans', []) if _same_gen(s.get('file_name', ''), base)]
        prim = [s for s in d.get('spans', []) if s.get('is_primary')]
        if RLIMIT_MSG.search(msg):
            kind = 'rlimit'
        elif VERIF_FAIL_MSG.search(msg) or SAFETY_MSG.search(msg):
            kind = 'safety' if SAFETY_MSG.search(msg) else 'functional'
        elif d.get('code') or TOOL_MSG.search(msg):
            tool_errors.append({'msg': msg, 'rendered': d.get('rendered', '')[:1500]})
            continue
        else:
            # any other Verus error with a span in the generated file is a failed proof obligation
            kind = 'functional'
        fn = None
        module = None
        line = None
        text = ''
        obligation = None
        clause_props = None
        clause_text = None
        pline = None
        for s in prim:
            if _same_gen(s.get('file_name', ''), base):
                pline = s['line_start']
        # function: from primary span line; else any span line
        cand = ([pline] if pline else []) + [s['line_start'] for s in spans]
        for ln in cand:
            md = linemap.get(ln) or linemap.get(str(ln))
            if md and md.get('fn'):
                fn = md['fn']
                module = md.get('module')
                break
            if md and md.get('kind') in ('spec', 'prelude', 'module_items', 'inimpl', 'intrait') and fn is None:
                module = md.get('kind')
        for s in spans:
            lab = (s.get('label') or '')
            if lab.startswith('at this') or lab.startswith('at the end'):
                continue        # the exit / body span says WHERE the obligation failed, not WHICH obligation
            for ln in range(s['line_start'], min(s.get('line_end', s['line_start']), s['line_start'] + 40) + 1):
                md = linemap.get(ln) or linemap.get(str(ln))
                if md and md.get('obligation') and md.get('kind') not in ('body',):
                    if obligation and md['obligation'] not in obligation.split('+'):
                        obligation = obligation + '+' + md['obligation']
                        clause_props = sorted(set(clause_props or []) | set(md.get('clause_props') or []))
                    elif not obligation:
                        obligation = md['obligation']
                        clause_props = md.get('clause_props')
                        clause_text = md.get('text')
        if pline:
            line = pline
            for s in prim:
                if s.get('text'):
                    text = s['text'][0]['text'].strip()
        # precondition of a std/vstd function (span outside the generated file) => safety
        if 'precondition' in msg and kind == 'functional':
            outside = [s for s in d.get('spans', []) if not _same_gen(s.get('file_name', ''), base)]
            callee_md = None
            for s in spans:
                if not s.get('is_primary'):
                    callee_md = linemap.get(s['line_start']) or linemap.get(str(s['line_start']))
            if outside or (callee_md and callee_md.get('kind') == 'prelude'):
                kind = 'safety'
        # precondition of a PROOF lemma (spec library / ghost items): a proof step, not a run-time safety condition
        if 'precondition' in msg and kind == 'safety':
            for s in spans:
                if not s.get('is_primary'):
                    cm = linemap.get(s['line_start']) or linemap.get(str(s['line_start']))
                    if cm and not cm.get('fn') and cm.get('kind') in ('spec', 'module_items', 'inimpl', 'intrait'):
                        kind = 'functional'
        failures.append({'fn': fn, 'module': module, 'kind': kind, 'msg': msg, 'line': line, 'text': text,
                         'span_lines': [(s['line_start'], s.get('line_end', s['line_start'])) for s in spans],
                         'obligation': obligation, 'clause_props': clause_props, 'clause_text': clause_text,
                         'rendered': d.get('rendered', '')[:3000]})
    return failures, tool_errors


def _aux_cache(genfile, kind, key):
    h = hashlib.sha256()
    h.update(open(genfile, 'rb').read())
    h.update(('|%s|%s|%s' % (verus_version(), kind, key)).encode())
    return os.path.join(CACHE, 'aux-' + h.hexdigest()[:32] + '.json')


def _run_cached(genfile, kind, key, cmd, timeout):
    """run a single-function verus command once per (generated file, function); returns stderr text or None on timeout"""
    os.makedirs(CACHE, exist_ok=True)
    cp = _aux_cache(genfile, kind, key)
    if os.path.exists(cp):
        try:
            return json.load(open(cp))['stderr']
        except Exception:
            pass
    try:
        p = subprocess.run(cmd, capture_output=True, text=True, cwd=VERIF, timeout=timeout)
        err = p.stderr + '\n' + '\n'.join(l for l in p.stdout.splitlines() if l.startswith('verification results'))
    except subprocess.TimeoutExpired:
        err = None
    tmp = cp + '.%d' % os.getpid()
    json.dump({'stderr': err}, open(tmp, 'w'))
    os.replace(tmp, cp)
    return err


def _counts(text):
    mo = re.search(r'verification results:: (\d+) verified, (\d+) errors', text or '')
    return (int(mo.group(1)), int(mo.group(2))) if mo else (None, None)


def confirm(genfile, failures, linemap, covered, trait_of=None, timeout=1800):
    """Every function that the whole-crate run reports as failing is verified once more ALONE (cached).  Only what
    that run reports counts: a failure that does not reproduce (solver `unknown` under memory pressure, a different
    search order) is dropped; if the function runs out of resources alone, its record becomes a resource-limit record
    (handled by the retry pass)."""
    by_fn = {}
    for f in failures:
        if f.get('fn') and f['fn'] in covered and f['kind'] != 'rlimit':
            by_fn.setdefault(f['fn'], []).append(f)
    out = [f for f in failures if not (f.get('fn') and f['fn'] in by_fn and f['kind'] != 'rlimit')]
    for fn, fs in by_fn.items():
        mod = fs[0].get('module') or ''
        tail = re.sub(r'@\w+::', '::', fn)
        if mod and tail.startswith(mod + '::'):
            tail = tail[len(mod) + 2:]
        impls = [q for q, t in (trait_of or {}).items() if t == fn]
        if impls:
            tail = '::' + fn.split('::')[-1]      # a trait method: its clauses are obligations of every implementation
        cmd = ['verus', genfile, '--cfg', 'feature="stream"', '--cfg', 'feature="raw_decoder"', '--no-lifetime',
               '--triggers-mode', 'silent', '--multiple-errors', '8', '--error-format=json',
               '--verify-function', '*' + tail]
        cmd += ['--verify-only-module', mod] if mod and mod not in ('spec', 'prelude') else ['--verify-root']
        err = _run_cached(genfile, 'confirm', fn, cmd, timeout)
        nver, nerr = _counts(err)
        if err is None or nver is None or (nver == 0 and nerr == 0):
            out.extend(fs)          # could not be re-run (timeout, nothing matched): keep what the crate run said
            continue
        diags = []
        for line in err.splitlines():
            line = line.strip()
            if line.startswith('{'):
                try:
                    diags.append(json.loads(line))
                except Exception:
                    pass
        fl, te = classify(diags, linemap, genfile)
        if te:
            out.extend(fs)
            continue
        out.extend([f for f in fl if f.get('fn') == fn or f.get('fn') in impls])
    return out


def narrow(genfile, failures, linemap, timeout=900):
    """A failed clause that carries several obligation tags (a conjunction under one binder) is narrowed to
    the failing conjuncts with Verus' --expand-errors on that one function.  If the expansion gives nothing
    usable the union of the tags is kept (every tagged property is then reported)."""
    base = os.path.basename(genfile)
    groups = {}
    for f in failures:
        if f.get('obligation') and '+' in f['obligation'] and f.get('fn') and f['kind'] == 'functional':
            groups.setdefault(f['fn'], []).append(f)
    for fn, fs in groups.items():
        mod = fs[0].get('module') or ''
        tail = re.sub(r'@\w+::', '::', fn)
        if mod and tail.startswith(mod + '::'):
            tail = tail[len(mod) + 2:]
        cmd = ['verus', genfile, '--cfg', 'feature="stream"', '--cfg', 'feature="raw_decoder"', '--no-lifetime',
               '--triggers-mode', 'silent', '--multiple-errors', '8', '--expand-errors', '--error-format=json',
               '--verify-function', '*' + tail]
        cmd += ['--verify-only-module', mod] if mod and mod not in ('spec', 'prelude') else ['--verify-root']
        err = _run_cached(genfile, 'narrow', fn, cmd, timeout)
        if err is None:
            continue
        leaf = []
        for line in err.splitlines():
            line = line.strip()
            if not line.startswith('{'):
                continue
            try:
                d = json.loads(line)
            except Exception:
                continue
            if d.get('message', '').startswith('diagnostics via expansion'):
                for s in d.get('spans', []):
                    if _same_gen(s.get('file_name', ''), base):
                        leaf.append((s['line_start'], s.get('line_end', s['line_start'])))
        for f in fs:
            obs, props, ok = [], set(), True
            mine = [(a, b) for (a, b) in leaf if any(lo <= a <= hi for (lo, hi) in f['span_lines'])]
            if not mine:
                continue
            for (a, b) in mine:
                tagged = None
                for ln in range(a, b + 1):
                    md = linemap.get(ln) or linemap.get(str(ln))
                    if md and md.get('obligation') and md.get('kind') not in ('body',):
                        tagged = md
                        break
                if tagged is None:
                    ok = False
                    break
                if tagged['obligation'] not in obs:
                    obs.append(tagged['obligation'])
                    props |= set(tagged.get('clause_props') or [])
                    f.setdefault('narrowed_text', tagged.get('text'))
            if ok and obs:
                f['obligation_union'] = f['obligation']
                f['obligation'] = '+'.join(obs)
                f['clause_props'] = sorted(props)
                f['clause_text'] = f.get('narrowed_text') or f.get('clause_text')
    return failures


def fn_hashes(genfile, linemap):
    """(interface hash, {fn: hash of every generated line of that function}).  The interface is everything a modular
    verifier may use when it checks some OTHER function: all text outside function items (types, consts, spec items,
    prelude, spec library) plus, for every function, its signature and contract lines."""
    import hashlib
    lines = open(genfile).read().split('\n')
    per_fn, iface = {}, hashlib.sha256()
    sig_open = {}
    for i, l in enumerate(lines, start=1):
        l = l.rstrip()
        md = linemap.get(i) or linemap.get(str(i))
        fn = md.get('fn') if md else None
        if not fn:
            iface.update((l + '\n').encode())
            continue
        per_fn.setdefault(fn, hashlib.sha256()).update((l + '\n').encode())
        kind = md.get('kind')
        if kind == 'external_body' or l.strip() in ('#[verifier::external_body]', '{'):
            if l.strip() == '{':
                sig_open[fn] = True
            continue        # the demotion marker is not part of anybody's interface (the contract lines stay)
        if kind in ('spec', 'attr', 'ret', 'assume_external'):
            iface.update((fn + '|' + l + '\n').encode())
        elif kind == 'body' and not sig_open.get(fn):
            iface.update((fn + '|' + l + '\n').encode())       # signature lines, up to the line that opens the body
            if l.endswith('{') or l.endswith(';'):
                sig_open[fn] = True
    return iface.hexdigest(), dict((k, v.hexdigest()) for k, v in per_fn.items())


def first_error(genfile, fn, module, linemap, seeds=(0, 1), timeout=600):
    """A function that reports named failing obligations AND an exhausted resource limit: the verifier is asked for the
    first error only (--multiple-errors 1), alone, under two solver seeds.  If both runs stop at a named obligation
    without running out of resources, and agree on it, the obligation fails with resources to spare; the exhaustion
    belongs to the search for FURTHER errors after it.  Returns the failures of the first run, or None (no conclusion)."""
    tail = re.sub(r'@\w+::', '::', fn)
    if module and tail.startswith(module + '::'):
        tail = tail[len(module) + 2:]
    got = []
    for sd in seeds:
        cmd = ['verus', genfile, '--cfg', 'feature="stream"', '--cfg', 'feature="raw_decoder"', '--no-lifetime',
               '--triggers-mode', 'silent', '--multiple-errors', '1', '--error-format=json',
               '--smt-option', 'smt.random_seed=%d' % sd, '--verify-function', '*' + tail]
        cmd += ['--verify-only-module', module] if module and module not in ('spec', 'prelude') else ['--verify-root']
        err = _run_cached(genfile, 'first%d' % sd, fn, cmd, timeout)
        if err is None:
            return None
        diags = []
        for line in err.splitlines():
            line = line.strip()
            if line.startswith('{'):
                try:
                    diags.append(json.loads(line))
                except Exception:
                    pass
        fl, te = classify(diags, linemap, genfile)
        fl = [f for f in fl if f.get('fn') == fn]
        nver, nerr = _counts(err)
        if te or not fl or any(f['kind'] == 'rlimit' for f in fl) or nver is None or (nver == 0 and nerr == 0):
            return None
        got.append(fl)
    key = lambda fl: sorted((str(f.get('obligation')), str(f.get('line'))) for f in fl)
    if all(key(g) == key(got[0]) for g in got):
        return got[0]
    return None


def retry_rlimit(genfile, fn, module, linemap, scale=3, timeout=900):
    """A function that exhausted its resource limit is verified again, alone, with `scale` times the limit.
    Returns ('ok', []) if it verifies, ('failed', failures) if the verifier now names failing obligations,
    ('rlimit', []) if it is still out of resources."""
    txt = open(genfile).read()
    txt2 = re.sub(r'#\[verifier::rlimit\((\d+)\)\]', lambda mo: '#[verifier::rlimit(%d)]' % (int(mo.group(1)) * scale), txt)
    rfile = genfile.replace('.rs', '_retry.rs')
    open(rfile, 'w').write(txt2)
    orig_genfile = genfile
    tail = re.sub(r'@\w+::', '::', fn)
    if module and tail.startswith(module + '::'):
        tail = tail[len(module) + 2:]
    cmd = ['verus', rfile, '--cfg', 'feature="stream"', '--cfg', 'feature="raw_decoder"', '--no-lifetime',
           '--triggers-mode', 'silent', '--multiple-errors', '8', '--error-format=json', '--rlimit', str(10 * scale),
           '--verify-function', '*' + tail]
    cmd += ['--verify-only-module', module] if module and module not in ('spec', 'prelude') else ['--verify-root']
    err = _run_cached(orig_genfile, 'retry%d' % scale, fn, cmd, timeout)
    if err is None:
        return 'rlimit', []
    diags = []
    for line in err.splitlines():
        line = line.strip()
        if line.startswith('{'):
            try:
                diags.append(json.loads(line))
            except Exception:
                pass
    fl, te = classify(diags, linemap, rfile)
    fl = [f for f in fl if f.get('fn') == fn or f.get('fn') is None]
    if te:
        return 'rlimit', []
    if any(f['kind'] == 'rlimit' for f in fl):
        return 'rlimit', []
    nver, nerr = _counts(err)
    if nver is None or (nver == 0 and nerr == 0):
        return 'rlimit', []      # nothing was verified (pattern matched no function): no conclusion
    if not fl:
        return 'ok', []
    return 'failed', [f for f in fl if f.get('fn') == fn]


def overlay_index(rep):
    """fn -> dict(props(primary, C07 stripped), clauses=[(id, props, text)])."""
    idx = {}
    for q, fo in rep['covered'].items():
        clauses = []
        texts = [fo.spec, fo.entry, fo.exit] + [lp[k] for lp in fo.loops.values() for k in ('inv', 'start', 'end')] \
            + [a[2] for a in fo.anchors]
        for t in texts:
            for l in (t or '').split('\n'):
                ct = overlay.clause_tags(l)
                if ct:
                    clauses.append((ct[0], ct[1], l.strip()))
        idx[q] = {'props': [p for p in fo.props if p != 'C07'], 'clauses': clauses,
                  'assumed': fo.assume_external, 'src': fo.src}
    # trait impl methods inherit the clauses (and primary tags) of the trait declaration
    for q, trq in rep.get('trait_of', {}).items():
        if trq in idx and q in idx:
            idx[q]['clauses'] = idx[q]['clauses'] + [c for c in idx[trq]['clauses'] if c not in idx[q]['clauses']]
            idx[q]['props'] = sorted(set(idx[q]['props']) | set(idx[trq]['props']))
    return idx
