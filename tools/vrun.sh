#!/bin/sh
# helper: generate + run verus, compact error view
cd /verif && python3 tools/gen.py >/dev/null && verus gen/lzma_rs_verus.rs --cfg 'feature="stream"' --cfg 'feature="raw_decoder"' --num-threads 16 --multiple-errors 20 --triggers-mode silent --no-lifetime "$@" 2>&1
