"""Mechanical extraction of /repo/src into Verus-acceptable Rust (rewrite rules R1-R12 of DESIGN.md).

Every rule is purely syntactic, counted, and listed in the evidence.  A rule whose mandatory site
is not found raises ExtractError (tool error -> exit 2, never an alarm).
"""
import re
from collections import Counter
from rsparse import mask, match_close, items, walk, line_start


class ExtractError(Exception):
    pass


# module path -> file (relative to /repo/src); order = dependency order in the generated file
MODULES = [
    ('error', 'error.rs'),
    ('util::vec2d', 'util/vec2d.rs'),
    ('decode::lzbuffer', 'decode/lzbuffer.rs'),
    ('decode::rangecoder', 'decode/rangecoder.rs'),
    ('decode::util', 'decode/util.rs'),
    ('decode::options', 'decode/options.rs'),
    ('decode::lzma', 'decode/lzma.rs'),
    ('decode::lzma2', 'decode/lzma2.rs'),
    ('xz', 'xz/mod.rs'),
    ('xz::crc', 'xz/crc.rs'),
    ('xz::footer', 'xz/footer.rs'),
    ('xz::header', 'xz/header.rs'),
    ('decode::xz', 'decode/xz.rs'),
    ('decode::stream', 'decode/stream.rs'),
    ('encode::options', 'encode/options.rs'),
    ('encode::util', 'encode/util.rs'),
    ('encode::rangecoder', 'encode/rangecoder.rs'),
    ('encode::dumbencoder', 'encode/dumbencoder.rs'),
    ('encode::lzma2', 'encode/lzma2.rs'),
    ('encode::xz', 'encode/xz.rs'),
    ('', 'lib.rs'),
]


def _remove_calls(src, pat, counts, rule, replacement=None, eat_semicolon=True):
    """Remove (or replace) every `<pat>( ... )` macro/function call, balanced."""
    out = []
    i = 0
    rx = re.compile(pat)
    m = mask(src)
    while True:
        mo = rx.search(m, i)
        if not mo:
            out.append(src[i:])
            break
        ob = mo.end() - 1
        assert m[ob] == '(', (pat, src[mo.start():mo.end()])
        cb = match_close(m, ob, '(', ')')
        out.append(src[i:mo.start()])
        k = cb + 1
        if replacement is not None:
            out.append(replacement)
        elif eat_semicolon and k < len(src) and src[k] == ';':
            k += 1
        counts[rule] += 1
        i = k
    return ''.join(out)


def _remove_items(src, pred, counts, rule):
    """Remove top-level-or-nested items for which pred(item, src) holds (with their attributes)."""
    its = [it for it in walk(items(src)) if pred(it)]
    its.sort(key=lambda it: it.attrs_start)
    out = []
    i = 0
    for it in its:
        if it.attrs_start < i:
            continue
        out.append(src[i:it.attrs_start])
        e = it.end + 1
        if e < len(src) and src[e] == '\n':
            e += 1
        i = e
        counts[rule] += 1
    out.append(src[i:])
    return ''.join(out)


def _has_cfg_test(src, it):
    return re.search(r'#\[cfg\(test\)\]', src[it.attrs_start:it.start]) is not None


def r1(src, counts):
    n = len(re.findall(r'^\s*//!.*\n', src, flags=re.M))
    src = re.sub(r'^\s*//!.*\n', '', src, flags=re.M)
    counts['R1.inner_doc'] += n
    src = _remove_items(src, lambda it: _has_cfg_test(src, it), counts, 'R1.cfg_test_item')
    # cfg(test) `use` lines
    src, k = re.subn(r'#\[cfg\(test\)\]\nuse [^;]*;\n', '', src)
    counts['R1.cfg_test_item'] += k
    src = _remove_items(
        src,
        lambda it: it.kind == 'impl' and re.match(r'(Display|Error|Debug) for ', it.name) is not None,
        counts, 'R1.fmt_impl')

    def der(mo):
        names = [x.strip() for x in mo.group(1).split(',') if x.strip() and x.strip() != 'Debug']
        counts['R1.derive_debug'] += 1
        return ('#[derive(%s)]' % ', '.join(names)) if names else ''
    src = re.sub(r'#\[derive\(([^)]*\bDebug\b[^)]*)\)\]', der, src)
    return src


def r2(src, counts):
    src = _remove_calls(src, r'\blzma_(?:trace|debug|info)!\(', counts, 'R2.log_macro')
    # const_assert!( .. ) => removed (statement form)
    src = _remove_calls(src, r'\bconst_assert!\(', counts, 'R2.const_assert')
    src, k = re.subn(r'^use crate::util::const_assert;\n', '', src, flags=re.M)
    return src


def r3(src, counts):
    return _remove_calls(src, r'\bformat!\(', counts, 'R3.format', replacement='crate::fmt_stub()')


def r4(src, counts):
    m = mask(src)
    out = []
    i = 0
    for mo in re.finditer(r'\bfn\s+\w+\s*(?:<[^>]*>)?\s*\(\s*mut self\b', m):
        ob = m.index('{', mo.end())
        # ensure this `{` is the body (no where-clause braces in this crate's `mut self` fns)
        cb = match_close(m, ob)
        sig = src[mo.start():ob].replace('mut self', 'self', 1)
        body = src[ob + 1:cb]
        mb = m[ob + 1:cb]
        # rename self -> this on the masked positions
        nb = []
        last = 0
        for s in re.finditer(r'\bself\b', mb):
            nb.append(body[last:s.start()])
            nb.append('this')
            last = s.end()
        nb.append(body[last:])
        out.append(src[i:mo.start()] + sig + '{\n        let mut this = self;' + ''.join(nb) + '}')
        i = cb + 1
        counts['R4.mut_self'] += 1
    out.append(src[i:])
    return ''.join(out)


def r5(src, counts):
    # associated const initialised by an exec call -> zero-argument fn with the same body
    # (Verus cannot attach a spec to an associated exec const); uses `Self::X` -> `Self::X()`
    def assoc(mo):
        counts['R5.assoc_const_fn'] += 1
        return '%s#[allow(non_snake_case)]%sfn %s() -> %s { %s }' % (mo.group(1), mo.group(1), mo.group(2), mo.group(3), mo.group(4))
    src, k = re.subn(r'(\n[ \t]+)const (NUM_BITS): (usize) = ([^;]+);', assoc, src)
    if k:
        src, k2 = re.subn(r'\bSelf::NUM_BITS\b(?!\()', 'Self::NUM_BITS()', src)
        counts['R5.assoc_const_use'] += k2
    # consts initialised by an exec call
    src, k = re.subn(r'(?m)^((?:pub(?:\([a-z]+\))? )?)const (\w+: [^=\n]+= [\w:<>]+::new\()', r'\1exec const \2', src)
    counts['R5.exec_const'] += k

    # byte-slice consts: `const X: &[u8] = &[a, b];` -> exec const with the mechanical ensures
    def bs(mo):
        counts['R5.slice_const'] += 1
        vis, name, elems = mo.group(1), mo.group(2), mo.group(3)
        sq = ', '.join('%su8' % e.strip() for e in elems.split(',') if e.strip())
        return ("%sexec const %s: &'static [u8]\n    ensures %s@ == seq![%s]\n{\n    let x: &'static [u8] = &[%s];\n"
                "    assert(x@ =~= seq![%s]);\n    x\n}\n" % (vis, name, name, sq, elems, sq))
    src = re.sub(r"(?m)^((?:pub(?:\([a-z]+\))? )?)const (\w+): &(?:'static )?\[u8\] = &\[([^\]]*)\];\n", bs, src)
    return src


def r6(src, counts):
    """`EXPR.map_err(path::Variant)?` -> `(match EXPR { Ok(v) => v, Err(e) => return Err(path::Variant(e)) })`:
    the error constructor becomes visible to the verifier.  Dropped: the identity `From<Error> for Error`
    conversion that `?` applies to an error that already has the function's error type.
    Any other `.map_err(path)` becomes a closure."""
    m = mask(src)
    out = []
    last = 0
    for mo in re.finditer(r'\.map_err\(((?:\w+::)+[A-Z]\w*)\)\?', m):
        # start of the receiver expression: scan back to `=`, `;`, `{`, `}` at depth 0
        i = mo.start() - 1
        depth = 0
        while i >= 0:
            c = m[i]
            if c in ')]':
                depth += 1
            elif c in '([':
                if depth == 0:
                    break
                depth -= 1
            elif depth == 0 and c in '=;{}':
                break
            i -= 1
        st = i + 1
        while m[st].isspace():
            st += 1
        if st < last:
            continue
        out.append(src[last:st])
        out.append('(match %s { Ok(ok_value) => ok_value, Err(err_value) => return Err(%s(err_value)) })' % (src[st:mo.start()], mo.group(1)))
        last = mo.end()
        counts['R6.map_err_try'] += 1
    out.append(src[last:])
    src = ''.join(out)
    def rep(mo):
        counts['R6.map_err_path'] += 1
        return '.map_err(|e| %s(e))' % mo.group(1)
    return re.sub(r'\.map_err\(((?:\w+::)+[A-Z]\w*)\)', rep, src)


def r7(src, counts):
    """`let v = loop { .. break e; };` -> `let v; loop { .. v = e; break; }` (decode_stream)."""
    m = mask(src)
    mo = re.search(r'let (\w+) = loop \{', m)
    if not mo:
        return src
    v = mo.group(1)
    ob = mo.end() - 1
    cb = match_close(m, ob)
    body = src[ob + 1:cb]
    mb = m[ob + 1:cb]
    brk = list(re.finditer(r'\bbreak\s+([^;]+);', mb))
    if len(brk) != 1:
        raise ExtractError('R7: expected exactly one `break <expr>;` in value loop')
    b = brk[0]
    expr = body[b.start(1):b.end(1)]
    ind = re.search(r'[ \t]*$', body[:b.start()]).group(0)
    tmp = '%s_loop_value' % v
    body = body[:b.start()] + ('%s = %s;\n%sbreak;' % (tmp, expr, ind)) + body[b.end():]
    k = cb + 1
    if src[k] != ';':
        raise ExtractError('R7: value loop not followed by `;`')
    counts['R7.break_value'] += 1
    return (src[:mo.start()] + 'let %s;\n    loop {' % tmp + body + '}\n    let %s = %s;' % (v, tmp)
            + src[k + 1:])


def r8(src, counts):
    """`for (i, x) in xs.iter().enumerate() {` -> `for i in 0..xs.len() { let x = &xs[i];`"""
    def rep(mo):
        counts['R8.enumerate'] += 1
        ind, i, x, xs = mo.group(1), mo.group(2), mo.group(3), mo.group(4)
        return '%sfor %s in 0..%s.len() {\n%s    let %s = &%s[%s];' % (ind, i, xs, ind, x, xs, i)
    return re.sub(r'([ \t]*)for \((\w+), (\w+)\) in (\w+)\.iter\(\)\.enumerate\(\) \{', rep, src)


def r9(src, counts):
    src, k = re.subn(r'(const \w+): &\[u8\]', r"\1: &'static [u8]", src)
    counts['R9.static_lifetime'] += k
    src, k = re.subn(r'\bpub\((?:crate|super)\)', 'pub', src)
    counts['R9.pub_crate'] += k
    # struct fields -> pub
    m = mask(src)
    out = []
    i = 0
    for mo in re.finditer(r'\bstruct\s+\w+[^;{(]*\{', m):
        ob = mo.end() - 1
        cb = match_close(m, ob)
        body = src[ob + 1:cb]
        mb = m[ob + 1:cb]
        nb = []
        depth = 0
        for line in mb.split('\n'):
            pass
        pos = 0
        lines_m = mb.split('\n')
        lines_s = body.split('\n')
        for lm_, ls_ in zip(lines_m, lines_s):
            fm = re.match(r'(\s*)(\w+)\s*:(?!:)', lm_)
            if depth == 0 and fm and fm.group(2) not in ('pub',):
                nb.append(ls_[:fm.start(2)] + 'pub ' + ls_[fm.start(2):])
                counts['R9.pub_field'] += 1
            else:
                nb.append(ls_)
            depth += lm_.count('{') - lm_.count('}')
        nb = ['\n'.join(nb)]
        out.append(src[i:ob + 1] + ''.join(nb))
        i = cb
    out.append(src[i:])
    src = ''.join(out)
    # private top-level types -> pub (visibility only; Verus treats non-visible datatypes as opaque)
    src, k = re.subn(r'(?m)^(struct|enum) ', r'pub \1 ', src)
    counts['R9.pub_type'] += k
    return src


def r10(src, counts):
    def rd(mo):
        counts['R10.byteorder_read'] += 1
        return '.read_%s_%s()' % (mo.group(1), 'be' if mo.group(2) == 'Big' else 'le')

    def wr(mo):
        counts['R10.byteorder_write'] += 1
        return '.write_%s_%s(' % (mo.group(1), 'be' if mo.group(2) == 'Big' else 'le')
    src = re.sub(r'\.read_(u16|u32|u64)::<(Big|Little)Endian>\(\)', rd, src)
    src = re.sub(r'\.write_(u16|u32|u64)::<(Big|Little)Endian>\(', wr, src)

    def use(mo):
        counts['R10.byteorder_use'] += 1
        names = mo.group(1)
        outl = []
        if 'ReadBytesExt' in names:
            outl.append('use crate::shim::ReadBytesShim;')
        if 'WriteBytesExt' in names:
            outl.append('use crate::shim::WriteBytesShim;')
        return '\n'.join(outl) + '\n'
    def tobe(mo):
        counts['R10.to_be_bytes'] += 1
        return 'crate::u16_to_be_bytes(%s)' % mo.group(1)
    src = re.sub(r'\b(\w+)\.to_be_bytes\(\)', tobe, src)
    src = re.sub(r'^use byteorder::\{?([^;}]*)\}?;\n', use, src, flags=re.M)
    return src


def r11(src, counts):
    def use(mo):
        counts['R11.crc_use'] += 1
        return 'use crate::crc::{%s};\n' % mo.group(1)
    src = re.sub(r'^use crc::\{([^}]*)\};\n', use, src, flags=re.M)
    if re.search(r'(?<![:\w])crc::(Width|Digest)', src) and 'use crate::crc' not in src:
        src = 'use crate::crc;\n' + src
        counts['R11.crc_path'] += 1
    return src


def r12(src, counts):
    def take(mo):
        counts['R12.take'] += 1
        return 'crate::adapt::TakeShim::new(%s, %s)' % (mo.group(1), mo.group(2))
    src = re.sub(r'\b(\w+)\.take\((\w+)\)', lambda mo: take(mo) if mo.group(1) in ('input', 'count_input') else mo.group(0), src)
    src, k = re.subn(r'\bio::BufReader::new\(', 'crate::adapt::BufReaderShim::new(', src)
    counts['R12.bufreader'] += k
    return src


def r16(src, counts):
    """`io::Error::new(<kind>, <msg>)` -> `crate::io_error_stub()` (the message and kind of an io::Error are
    opaque to Verus, like format! under R3); `std::u64::MAX` -> `u64::MAX` (legacy module path)."""
    src = _remove_calls(src, r'\bio::Error::new\(', counts, 'R16.io_error_new', replacement='crate::io_error_stub()',
                        eat_semicolon=False)
    src, k = re.subn(r'\bstd::(u64|u32|usize)::MAX\b', r'\1::MAX', src)
    counts['R16.legacy_int_max'] += k
    return src


def r17(src, counts):
    """`Cursor::new(<slice expression>)` (a std Cursor used as a READER over a byte slice) becomes the verified
    stand-in `crate::adapt::SliceCursor::new(..)`; `Cursor::new([0; N])` (array + position container, never
    read through) stays std's Cursor."""
    m = mask(src)
    out = []
    i = 0
    for mo in re.finditer(r'\b(?:std::io::|io::)?Cursor::new\(', m):
        ob = mo.end() - 1
        cb = match_close(m, ob, '(', ')')
        arg = m[ob + 1:cb].strip()
        if arg.startswith('['):
            continue
        out.append(src[i:mo.start()])
        out.append('crate::adapt::SliceCursor::new(')
        i = mo.end()
        counts['R17.slice_cursor'] += 1
    out.append(src[i:])
    return ''.join(out)


def r18(src, counts):
    """`return self.f(args);` -> `let return_value = self.f(args); return return_value;` so that ghost text can
    stand between the call and the return (same evaluation order, same value)."""
    def rep(mo):
        counts['R18.return_call'] += 1
        return '%slet return_value = %s;\n%sreturn return_value;' % (mo.group(1), mo.group(2), mo.group(1))
    return re.sub(r'^(\s*)return (self\.\w+\([^;\n]*\));', rep, src, flags=re.M)


def r19(src, counts):
    """`A.checked_mul(B).unwrap_or_else(|| panic!(..))` (over one or several lines) -> `crate::mul_or_panic(A, B)`:
    the shim's precondition `A * B <= usize::MAX` IS the statement that the panic branch is dead."""
    m = mask(src)
    out = []
    last = 0
    for mo in re.finditer(r'(\b\w+)\s*\.checked_mul\(((?:self\.)?\w+)\)\s*\.unwrap_or_else\(', m):
        ob = mo.end() - 1
        cb = match_close(m, ob, '(', ')')
        out.append(src[last:mo.start()])
        out.append('crate::mul_or_panic(%s, %s)' % (mo.group(1), mo.group(2)))
        last = cb + 1
        counts['R19.checked_mul_panic'] += 1
    out.append(src[last:])
    return ''.join(out)


def r20(src, counts):
    """Allocation sites get a verified wrapper whose only addition is a precondition on the size (prelude `crate::mem`):
    `vec![E; N]` -> `crate::mem::vec_filled(E, N)`, `Vec::with_capacity(N)` -> `crate::mem::vec_with_capacity(N)`,
    `X.resize(N, V)` -> `crate::mem::vec_resize(&mut X, N, V)`, `X.reserve(N)` / `X.reserve_exact(N)` ->
    `crate::mem::vec_reserve(&mut X, N)`.  The wrappers' bodies are the original calls (verified against vstd's
    specifications of them), so nothing but the obligation `alloc_ok(N)` is added."""
    m = mask(src)
    out = []
    last = 0
    pat = re.compile(r'\bvec!\[|\bVec::with_capacity\(|((?:\b[\w]+(?:\.[\w]+)*))\.(resize|reserve|reserve_exact)\(')
    for mo in pat.finditer(m):
        if mo.start() < last:
            continue
        tok = mo.group(0)
        if tok == 'vec![':
            ob = mo.end() - 1
            cb = match_close(m, ob, '[', ']')
            inner = src[ob + 1:cb]
            mi = m[ob + 1:cb]
            # top-level `;` separates element and count; `vec![]` and `vec![a, b, c]` are left alone
            depth, semi = 0, -1
            for k, ch in enumerate(mi):
                if ch in '([{':
                    depth += 1
                elif ch in ')]}':
                    depth -= 1
                elif ch == ';' and depth == 0:
                    semi = k
                    break
            if semi < 0:
                continue
            out.append(src[last:mo.start()])
            out.append('crate::mem::vec_filled(%s, %s)' % (inner[:semi].strip(), inner[semi + 1:].strip()))
            last = cb + 1
            counts['R20.alloc_site'] += 1
        elif tok.startswith('Vec::with_capacity('):
            out.append(src[last:mo.start()])
            out.append('crate::mem::vec_with_capacity(')
            last = mo.end()
            counts['R20.alloc_site'] += 1
        else:
            ob = mo.end() - 1
            cb = match_close(m, ob, '(', ')')
            recv, meth = mo.group(1), mo.group(2)
            out.append(src[last:mo.start()])
            out.append('crate::mem::vec_%s(&mut %s, %s)' % ('resize' if meth == 'resize' else 'reserve', recv, src[ob + 1:cb]))
            last = cb + 1
            counts['R20.alloc_site'] += 1
    out.append(src[last:])
    return ''.join(out)


def r13(src, counts):
    """`impl<W> Write for Stream<W>` becomes an inherent impl (`pub fn write`, `pub fn flush`): the
    methods keep their bodies, only the trait-ness is dropped, so that their contracts can speak about
    the compressed bytes accepted instead of the generic sink vocabulary of the Write specification."""
    mo = re.search(r'^impl<W> Write for Stream<W>', src, flags=re.M)
    if not mo:
        return src
    m = mask(src)
    ob = m.index('{', mo.end())
    cb = match_close(m, ob, '{', '}')
    body = src[ob:cb + 1]
    body2, k = re.subn(r'^(\s*)fn (write|flush)\(', r'\1pub fn \2(', body, flags=re.M)
    counts['R13.stream_write_inherent'] += 1
    return src[:mo.start()] + 'impl<W> Stream<W>' + src[mo.end():ob] + body2 + src[cb + 1:]


def r15(src, counts):
    """A `let x = ..;` at the top level of a function body that shadows parameter `x` is alpha-renamed
    to `x_shadow` for the remainder of the body (contracts need to name the parameter at every exit)."""
    m = mask(src)
    fns = [it for it in walk(items(src, m)) if it.kind == 'fn' and it.has_body]
    edits = []  # (start, end, text)
    for it in fns:
        sig = m[it.start:it.sig_end]
        po = sig.find('(')
        if po < 0:
            continue
        pc = match_close(m, it.start + po, '(', ')')
        params = set(re.findall(r'(?:^|[(,])\s*(?:mut\s+)?(\w+)\s*:', m[it.start + po:pc + 1]))
        params.discard('self')
        body_lo, body_hi = it.sig_end + 1, it.end
        # top-level statements: track brace depth
        depth = 0
        i = body_lo
        while i < body_hi:
            c = m[i]
            if c == '{':
                depth += 1
            elif c == '}':
                depth -= 1
            elif depth == 0:
                mo = re.compile(r'let\s+(mut\s+)?(\w+)\s*(:[^=;]+)?=').match(m, i)
                if mo and (i == body_lo or not (m[i - 1].isalnum() or m[i - 1] == '_')) and mo.group(2) in params:
                    name = mo.group(2)
                    # end of this statement: next `;` at depth 0 (parens/braces balanced)
                    j = mo.end()
                    d2 = 0
                    while j < body_hi:
                        if m[j] in '({[':
                            d2 += 1
                        elif m[j] in ')}]':
                            d2 -= 1
                        elif m[j] == ';' and d2 == 0:
                            break
                        j += 1
                    edits.append((mo.start(2), mo.end(2), name + '_shadow'))
                    for o in re.finditer(r'\b%s\b' % re.escape(name), m[j:body_hi]):
                        # skip field accesses `.name` and struct-literal field names `name:`
                        a = j + o.start()
                        if m[a - 1] == '.':
                            continue
                        edits.append((a, a + len(name), name + '_shadow'))
                    counts['R15.shadowed_param'] += 1
                    params.discard(name)
                    i = j
                    continue
            i += 1
    if not edits:
        return src
    edits.sort()
    out = []
    last = 0
    for a, b, t in edits:
        if a < last:
            continue
        out.append(src[last:a]); out.append(t); last = b
    out.append(src[last:])
    return ''.join(out)


def r21(src, counts):
    """`RECV.as_ref().map(|v| BODY)` / `RECV.as_mut().map(|v| BODY)` -> `(match RECV.as_ref() { Some(v) => Some(BODY),
    None => None })`: the definition of `Option::map` inlined, so that no closure postcondition is needed (an
    un-annotated closure tells the verifier nothing about its result).  Dropped: the call through `Option::map`."""
    m = mask(src)
    out = []
    last = 0
    for mo in re.finditer(r'((?:self|\w+)(?:\.\w+)*)\.as_(ref|mut)\(\)\.map\(\|(\w+)\|\s*', m):
        ob = m.index('(', mo.start() + len(mo.group(1)) + len('.as_ref()'))
        cb = match_close(m, ob, '(', ')')
        out.append(src[last:mo.start()])
        out.append('(match %s.as_%s() { Some(%s) => Some(%s), None => None })' % (mo.group(1), mo.group(2), mo.group(3), src[mo.end():cb]))
        last = cb + 1
        counts['R21.option_map_closure'] += 1
    out.append(src[last:])
    return ''.join(out)


def r22(src, counts):
    """`for (I, X) in E.bytes().enumerate() {` -> the desugared loop over the verified stand-in `BytesShim` (std's
    `Bytes` has no specification and Verus no `for` over it):
        let mut bytes_iter = crate::adapt::BytesShim::new(E); let mut enumerate_count: usize = 0;
        loop { let X = match bytes_iter.next() { Some(item) => item, None => break };
               let I = enumerate_count; enumerate_count += 1; ...
    (`Enumerate::next` increments its counter before yielding, overflow-checked in debug builds: kept.)"""
    def rep(mo):
        counts['R22.bytes_enumerate_loop'] += 1
        ind = mo.group(1)
        return ('%slet mut bytes_iter = crate::adapt::BytesShim::new(%s);\n%slet mut enumerate_count: usize = 0;\n'
                '%sloop {\n%s    let %s = match bytes_iter.next() { Some(item) => item, None => break };\n'
                '%s    let %s = enumerate_count;\n%s    enumerate_count += 1;'
                % (ind, mo.group(4), ind, ind, ind, mo.group(3), ind, mo.group(2), ind))
    return re.sub(r'(?m)^([ \t]*)for \((\w+), (\w+)\) in (\w+)\.bytes\(\)\.enumerate\(\) \{', rep, src)


def extract_file(path, modpath):
    """Return (rewritten_source, counts)."""
    counts = Counter()
    src = open(path).read()
    for rule in (r1, r2, r3, r4, r5, r6, r7, r8, r9, r10, r11, r12, r13, r16, r17, r18, r19, r20, r21, r22, r15):
        src = rule(src, counts)
    return src, counts
