"""Overlay parser.  Contracts live in /verif/contracts/*.ov, keyed by fully-qualified function name.

Format (directive lines start with `@` in column 0; everything else is payload, copied verbatim):

  @fn <module::path::Type::name> [PROP ...]        properties served by this function's obligations
  @attr <attribute line>                             e.g. #[verifier::rlimit(40)]
  @ret <name>                                        name the return value: `-> T` => `-> (name: T)`
  @spec                                              requires / ensures / decreases clauses
  @entry                                             ghost text inserted right after the body `{`
  @exit                                              ghost text inserted right before the body `}`
  @loop <k>                                          invariant / decreases clauses of the k-th loop
  @loop <k> iter <name>                              for-loop ghost iterator name (`for x in name: e`)
  @loop <k> start | end                              ghost text at loop body start / end
  @before <regex> | @after <regex>                   ghost text before / after the first body line
                                                     matching regex (fragile anchor, counted)
  @assume-external                                   leave the body unverified (external_body) but
                                                     attach the @spec as an ASSUMED contract
  @end

  @module <module::path>      ghost items appended to the module
  @intrait <module::path::Trait> / @inimpl <module::path::ImplKey>   ghost items appended inside
  @end

A clause line may end with `// [ID tag tag]`: obligation id and the properties that clause serves
(narrows attribution of a failure of that clause).
"""
import re
import glob
import os


class OverlayError(Exception):
    pass


class FnOverlay:
    def __init__(self, qual, props, src):
        self.qual = qual
        self.props = props
        self.src = src            # (file, line)
        self.attrs = []
        self.ret = None
        self.spec = ''
        self.entry = ''
        self.exit = ''
        self.loops = {}           # k -> dict(inv='', iter=None, start='', end='')
        self.anchors = []         # (kind 'before'|'after', regex, text)
        self.assume_external = False

    def loop(self, k):
        return self.loops.setdefault(k, {'inv': '', 'iter': None, 'start': '', 'end': ''})


class Overlay:
    def __init__(self):
        self.fns = {}
        self.module_items = {}    # modpath -> text
        self.intrait = {}         # qual -> text
        self.inimpl = {}          # qual -> text
        self.files = []


def load(dirpath):
    ov = Overlay()
    for f in sorted(glob.glob(os.path.join(dirpath, '*.ov'))):
        ov.files.append(f)
        _load_file(ov, f)
    return ov


def _load_file(ov, path):
    cur = None          # current FnOverlay or ('module'|'intrait'|'inimpl', key)
    sect = None         # callable appending text
    buf = []

    def flush():
        nonlocal buf
        if sect is not None and buf:
            sect(''.join(buf))
        buf = []

    for ln, line in enumerate(open(path), 1):
        if not line.startswith('@'):
            if line.startswith('#!'):
                continue  # overlay comment
            buf.append(line)
            continue
        flush()
        sect = None
        parts = line.split()
        d = parts[0]
        if d == '@fn':
            qual = parts[1]
            props = [p for p in parts[2:]]
            if qual in ov.fns:
                raise OverlayError('%s:%d duplicate @fn %s' % (path, ln, qual))
            cur = FnOverlay(qual, props, (path, ln))
            ov.fns[qual] = cur
        elif d in ('@module', '@intrait', '@inimpl'):
            key = line.split(None, 1)[1].strip()
            tbl = {'@module': ov.module_items, '@intrait': ov.intrait, '@inimpl': ov.inimpl}[d]
            cur = (d, key)

            def app(t, tbl=tbl, key=key):
                tbl[key] = tbl.get(key, '') + t
            sect = app
        elif d == '@end':
            cur = None
        elif isinstance(cur, FnOverlay):
            fo = cur
            if d == '@attr':
                fo.attrs.append(line.split(None, 1)[1].rstrip('\n'))
            elif d == '@ret':
                fo.ret = parts[1]
            elif d == '@assume-external':
                fo.assume_external = True
            elif d == '@spec':
                def app(t, fo=fo):
                    fo.spec += t
                sect = app
            elif d == '@entry':
                def app(t, fo=fo):
                    fo.entry += t
                sect = app
            elif d == '@exit':
                def app(t, fo=fo):
                    fo.exit += t
                sect = app
            elif d == '@loop':
                k = int(parts[1])
                lp = fo.loop(k)
                if len(parts) == 2:
                    def app(t, lp=lp):
                        lp['inv'] += t
                    sect = app
                elif parts[2] == 'iter':
                    lp['iter'] = parts[3]
                elif parts[2] in ('start', 'end'):
                    def app(t, lp=lp, w=parts[2]):
                        lp[w] += t
                    sect = app
                else:
                    raise OverlayError('%s:%d bad @loop' % (path, ln))
            elif d in ('@before', '@after'):
                rx = line.split(None, 1)[1].strip()
                idx = len(fo.anchors)
                fo.anchors.append([d[1:], rx, ''])

                def app(t, fo=fo, idx=idx):
                    fo.anchors[idx][2] += t
                sect = app
            else:
                raise OverlayError('%s:%d unknown directive %s' % (path, ln, d))
        else:
            raise OverlayError('%s:%d directive %s outside @fn' % (path, ln, d))
    flush()


_TAG = re.compile(r'//\s*\[([^\]]+)\]\s*$')


def clause_tags(line):
    """Return (obligation_id, [props]) from a trailing `// [ID P1 P2]` comment, or None."""
    mo = _TAG.search(line)
    if not mo:
        return None
    toks = mo.group(1).split()
    return toks[0], [t for t in toks[1:] if re.fullmatch(r'C\d\d', t)]
