#!/bin/sh
# usage: seedtest.sh <patch.diff> <prop> [prop...]   -- apply to /repo, run checks, revert
patch=$1; shift
cd /repo && git apply "$patch" || { echo "APPLY FAILED"; exit 3; }
cd /verif
for p in "$@"; do ./vcheck $p > /tmp/vt/seed.out 2>&1; rc=$?; echo "== $p exit=$rc"; grep -E 'VIOLATION|UNDECIDED|failed obligation|clause:|at    :' /tmp/vt/seed.out | head -12; done
git -C /repo checkout -- .
