#!/bin/sh
# usage: seedtest.sh <patch.diff> <prop> [prop...]   -- apply to /repo, run checks, revert
# The evidence directory is saved and restored: evidence written while /repo is mutated is never kept.
patch=$1; shift
sav=/var/tmp/verif-evidence-save.$$
rm -rf "$sav"; cp -a /verif/evidence "$sav"
cd /repo && git apply "$patch" || { echo "APPLY FAILED"; rm -rf "$sav"; exit 3; }
cd /verif
mkdir -p /var/tmp/vt
for p in "$@"; do ./vcheck $p > /var/tmp/vt/seed.out 2>&1; rc=$?; echo "== $p exit=$rc"; grep -E 'VIOLATION|UNDECIDED|failed obligation|clause:|at    :' /var/tmp/vt/seed.out | head -12; done
git -C /repo checkout -- .
rm -rf /verif/evidence; mv "$sav" /verif/evidence
