#!/bin/sh
# usage: seedtest.sh <patch.diff> <prop> [prop...]
# Applies the patch to a scratch copy of /repo's committed tree (git archive HEAD), runs the quick checks against it
# (VERIF_REPO), removes the copy.  /repo itself and the evidence directory are not touched.
patch=$1; shift
scr=/var/tmp/verif-seedtest.$$
rm -rf "$scr"; mkdir -p "$scr" && git -C /repo archive HEAD | tar -x -C "$scr" || exit 3
(cd "$scr" && patch -p1 -s < "$patch") || { echo "APPLY FAILED"; rm -rf "$scr"; exit 3; }
V=$(cd "$(dirname "$0")/.." && pwd); cd "$V"
mkdir -p /var/tmp/vt
for p in "$@"; do
  VERIF_REPO="$scr" VERIF_GEN_TAG="_st$$" VERIF_NO_EVIDENCE=1 ./vcheck $p > /var/tmp/vt/seed.$$.out 2>&1; rc=$?
  echo "== $p exit=$rc"; grep -E 'VIOLATION|UNDECIDED|failed obligation|clause:|at    :' /var/tmp/vt/seed.$$.out | head -12
done
rm -rf "$scr" /var/tmp/vt/seed.$$.out "$V"/gen/*_st$$*
