#!/usr/bin/env python3
"""Run every check against every behaviour-preserving change in harmless/*.diff (on a scratch copy of /repo's committed
tree).  Expected: exit 0 everywhere; exit 2 (undecided) is tolerated and listed; exit 1 is a false alarm.
usage: harmless.py [names...]  -> harmless/RESULTS.json"""
import os, sys, json, subprocess, shutil, re, glob
VERIF = os.path.dirname(os.path.dirname(os.path.abspath(__file__)))
SCR = '/var/tmp/verif-harmless.%d' % os.getpid()
def sh(cmd, **kw): return subprocess.run(cmd, shell=True, capture_output=True, text=True, **kw)
names = sys.argv[1:] or sorted(os.path.basename(f)[:-5] for f in glob.glob(VERIF + '/harmless/*.diff'))
claimed = [c['property_id'] for c in json.load(open(VERIF + '/MANIFEST.json'))['checks']]
res_path = VERIF + '/harmless/RESULTS.json'
results = json.load(open(res_path)) if os.path.exists(res_path) else {}
env = dict(os.environ, VERIF_REPO=SCR, VERIF_GEN_TAG='_hl%d' % os.getpid(), VERIF_NO_EVIDENCE='1')
for n in names:
    shutil.rmtree(SCR, ignore_errors=True); os.makedirs(SCR)
    sh('git -C /repo archive HEAD | tar -x -C %s' % SCR)
    r = sh('cd %s && patch -p1 -s < %s/harmless/%s.diff' % (SCR, VERIF, n))
    if r.returncode: print(n, 'PATCH FAILED', r.stderr); continue
    row = {}
    for p in claimed:
        r = sh('cd %s && ./vcheck %s' % (VERIF, p), env=env)
        row[p] = {'exit': r.returncode if (r.returncode != 1 or 'VIOLATION property=' in r.stdout) else 3, 'note': '; '.join(l[:160] for l in r.stdout.splitlines() if l.startswith(('VIOLATION', 'UNDECIDED')))[:400]}
    results[n] = row
    print('%s alarms=%s undecided=%s' % (n, [p for p, v in row.items() if v['exit'] == 1], [p for p, v in row.items() if v['exit'] == 2]), flush=True)
    json.dump(results, open(res_path, 'w'), indent=1)
shutil.rmtree(SCR, ignore_errors=True)
for f in glob.glob(VERIF + '/gen/*_hl%d*' % os.getpid()): os.remove(f)
