#!/bin/sh
# usage: witness.sh <test-name-filter>  -- run findings/witness.rs natively against a scratch copy of /repo's working tree
S=${VERIF_SCRATCH:-/var/tmp/verif-witness.$$}
rm -rf "$S"; mkdir -p "$S" && rsync -a --exclude target --exclude .git ${VERIF_REPO:-/repo}/ "$S"/ && cp /verif/findings/witness.rs "$S"/tests/witness.rs
cd "$S" && CARGO_NET_OFFLINE=true cargo test --offline --features stream,raw_decoder --test witness "$@" 2>&1 | tail -15
rc=$?
cd / && rm -rf "$S"
exit $rc
