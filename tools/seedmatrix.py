#!/usr/bin/env python3
"""Run the checks against every seeded mutation (on a scratch copy of /repo) and tabulate.
usage: seedmatrix.py [ids...]   -> writes seeded/RESULTS.json"""
import os, sys, json, subprocess, shutil, re
VERIF=os.path.dirname(os.path.dirname(os.path.abspath(__file__)))
SCR='/var/tmp/verif-seedrepo.%d' % os.getpid()
def sh(cmd, **kw): return subprocess.run(cmd, shell=True, capture_output=True, text=True, **kw)
args = sys.argv[1:]
part = None
if args and args[0].startswith('--part='):
    part = args.pop(0)[len('--part='):]        # e.g. 0/3 : every third mutation starting at 0
ids = args or sorted(os.listdir(VERIF+'/seeded'))
ids=[i for i in ids if os.path.isdir(VERIF+'/seeded/'+i)]
if part:
    k, n = [int(x) for x in part.split('/')]
    ids = [x for j, x in enumerate(ids) if j % n == k]
claimed=[c['property_id'] for c in json.load(open(VERIF+'/MANIFEST.json'))['checks']]
res_path=VERIF+'/seeded/RESULTS%s.json' % (('.' + part.replace('/', 'of')) if part else '')
results=json.load(open(res_path)) if os.path.exists(res_path) else {}
env=dict(os.environ, VERIF_REPO=SCR, VERIF_GEN_TAG='_seed%d' % os.getpid(), VERIF_NO_EVIDENCE='1')
for i in ids:
    shutil.rmtree(SCR, ignore_errors=True)
    os.makedirs(SCR, exist_ok=True)
    sh('git -C /repo archive HEAD | tar -x -C %s' % SCR)   # the committed tree, immune to concurrent edits of the working tree
    r=sh('cd %s && patch -p1 -s < %s/seeded/%s/patch.diff' % (SCR, VERIF, i))
    if r.returncode: print(i,'PATCH FAILED',r.stderr); continue
    prop=i.split('-')[0]
    row={}
    for p in ([prop] if prop in claimed else []) + [c for c in claimed if c!=prop]:
        r=sh('cd %s && ./vcheck %s' % (VERIF,p), env=env)
        obs=sorted(set(re.findall(r'obligation=(\S+)', r.stdout)))
        rc = r.returncode if (r.returncode != 1 or 'VIOLATION property=' in r.stdout) else 3   # 3: checker crashed (no verdict)
        row[p]={'exit':rc,'obligations':obs[:6]}
    results[i]=row
    own=row.get(prop,{}).get('exit','unclaimed')
    others=[p for p,v in row.items() if p!=prop and v['exit']==1]
    print('%s own=%s alarms_elsewhere=%s undecided=%s' % (i, own, others, [p for p,v in row.items() if v['exit']==2]), flush=True)
    json.dump(results,open(res_path,'w'),indent=1)
shutil.rmtree(SCR, ignore_errors=True)
