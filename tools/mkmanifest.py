#!/usr/bin/env python3
"""Write /verif/MANIFEST.json from the table below (kept in one place so claims stay current)."""
import json
import os

VERIF = os.path.dirname(os.path.dirname(os.path.abspath(__file__)))

TRUSTED = ('Trusted base: /verif/contracts/prelude.rs (assumed contracts of std::io::{Read,BufRead,Write}, byteorder and crc shims, '
           'Cursor/Vec/slice methods, src_eq axioms), extraction rewrites R1-R12 (DESIGN.md 2.1), 64-bit usize, A-CNT counter-overflow '
           'assume sites, Verus 0.2026.09.13 + Z3. Functions not under contract are external_body and listed in the evidence file.')

# property -> (claimed?, level text, technique, design ref, n/a reason)
CLAIMS = {
    'C09': (True,
            'Unbounded deductive proof (Verus) on the real LzCircularBuffer / LzAccumBuffer code: last_n and append_lz return Err and '
            'leave window and sink untouched iff dist exceeds the bytes produced or the dictionary size; otherwise the result is the '
            'LZ77 copy of the abstract output (lz_copy), independent of window capacity and of stale cells; the zero default in '
            'LzCircularBuffer::get is proved dead (precondition index < buf.len() discharged at every call site).',
            'Verus function contracts + loop invariants on mechanically extracted real code', '5 C09'),
    'C10': (True,
            'Unbounded deductive proof (Verus): LzCircularBuffer::set fails iff the window would have to grow beyond memlimit and then '
            'changes nothing; append_literal/append_lz with an infallible sink fail iff min(dict_size, produced) would exceed the '
            'limit; invariant buf.len() <= memlimit; the Ok postconditions do not mention memlimit (same behaviour as unlimited).',
            'Verus function contracts + data-structure invariant on mechanically extracted real code', '5 C10'),
}
NOT_YET = 'check not built yet (build in progress; see DESIGN.md section 8)'


def main():
    props = [json.loads(l)['id'] for l in open(os.path.join(VERIF, 'properties.jsonl'))]
    checks, na = [], []
    for p in props:
        c = CLAIMS.get(p)
        if c and c[0]:
            checks.append({
                'property_id': p,
                'quick_cmd': './vcheck %s --tier quick' % p,
                'thorough_cmd': './vcheck %s --tier thorough' % p,
                'evidence_file': '/verif/evidence/%s.json' % p,
                'replay_cmd_template': './vcheck %s --replay {path}' % p,
                'engine': 'vcheck',
                'level_claimed': {'category': 'proof', 'text': c[1], 'design_ref': 'DESIGN.md section %s' % c[3]},
                'level_note': TRUSTED,
                'technique': c[2],
            })
        else:
            na.append({'property_id': p, 'reason': (c[4] if c and len(c) > 4 else NOT_YET)})
    m = {
        'version': 1,
        'setup_cmd': 'mkdir -p gen evidence replays .cache && verus --version >/dev/null',
        'hooks': {
            'guard': 'lzma_rs_verif',
            'enable': 'no source hooks in /repo: Verus reads /repo/src directly (mechanical extraction on every run); Kani/native '
                      'harness modules are appended to a scratch copy of /repo under the cfg lzma_rs_verif at run time',
            'baseline_off_cmd': 'cd /repo && cargo test --workspace --no-fail-fast --offline',
            'source_commits': [],
            'add_only': True,
        },
        'engines': [{'name': 'vcheck', 'path': '/verif/vcheck', 'serves_properties': [c['property_id'] for c in checks],
                     'kind_free_text': 'mechanical extractor + contract overlay + Verus (Z3) deductive verifier; Kani for loop-free complete harnesses and counterexamples'}],
        'checks': checks,
        'not_applicable': na,
        'notes': 'Exit 2 (UNDECIDED) is used for tool limits (lost anchor, rlimit, unsupported construct) and never occurs on the unchanged tree.',
    }
    json.dump(m, open(os.path.join(VERIF, 'MANIFEST.json'), 'w'), indent=1)
    print('claimed:', [c['property_id'] for c in checks])


if __name__ == '__main__':
    main()
