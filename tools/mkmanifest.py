#!/usr/bin/env python3
"""Write /verif/MANIFEST.json from the table below (kept in one place so claims stay current)."""
import json
import os

VERIF = os.path.dirname(os.path.dirname(os.path.abspath(__file__)))

TRUSTED = ('Trusted base: /verif/contracts/prelude.rs (assumed contracts of std::io::{Read,BufRead,Write}, byteorder and crc shims, '
           'Cursor/Vec/slice methods, src_eq axioms), extraction rewrites R0-R22 (DESIGN.md A.2), mem::axiom_alloc_held (allocation justified by data held), 64-bit usize, A-CNT counter-overflow '
           'assume sites, Verus 0.2026.09.13 + Z3. Functions not under contract are external_body and listed in the evidence file.')

# property -> (claimed?, level text, technique, design ref, n/a reason)
CLAIMS = {
    'C01': (True,
            'Unbounded deductive proof (Verus) that the real decoder REFINES a spec decoder transcribed from the LZMA format document: '
            'range decoder (decode_bit, normalize, direct bits, bit trees, reverse trees, length decoder), literal / distance / symbol '
            'step (process_next_inner == sp_step for every state, lc/lp/pb, rep rotation, state table), window (append_lz == lz_copy for '
            'every dict size incl. wrap), symbol loop (process_mode == sp_run, with a verified lexicographic termination measure), header '
            '(props byte, dict clamp to 4096, size field), up to the public lzma_decompress_with_options: Ok => output is exactly the '
            'spec output; spec success + reliable source + infallible sink + memory limit not exceeded => Ok. Spec None => Err.',
            'Verus refinement proofs (function contracts, loop invariants, spec lemmas) on mechanically extracted real code', '5 C01'),
    'C02': (True,
            'Unbounded deductive proof (Verus): Lzma2Decoder::{decompress, parse_lzma, parse_uncompressed} and lzma2_decompress refine '
            'the LZMA2 chunk-layer spec sp_lzma2 (control byte classes, reset classes, 16/21-bit sizes + 1, props byte, dictionary and '
            'model carried across chunks, state reset == fresh model, target size = history + declared size, payload limited to the '
            'declared packed size through a verified Take stand-in); soundness and completeness both directions.',
            'Verus refinement proofs on mechanically extracted real code', '5 C02'),
    'C08': (True,
            'Unbounded deductive proof (Verus): read_header consumes exactly 13/13/5 bytes and computes the size in effect per option '
            '(caller-supplied size overrides the header field); process_mode(Finish) == sp_run: with a size n success implies exactly n '
            'bytes (early marker, overshooting match, exhausted input are errors); without a size, success implies end marker with '
            'Code == 0 and no input left -- or the explicitly carved-out marker-less stop (known finding F-C08).',
            'Verus function contracts against the format spec', '5 C08'),
    'C09': (True,
            'Unbounded deductive proof (Verus) on the real LzCircularBuffer / LzAccumBuffer code: last_n and append_lz return Err and '
            'leave window and sink untouched iff dist exceeds the bytes produced or the dictionary size; otherwise the result is the '
            'LZ77 copy of the abstract output (lz_copy), independent of window capacity and of stale cells; the zero default in '
            'LzCircularBuffer::get is proved dead (precondition index < buf.len() discharged at every call site); the symbol step '
            'rejects (spec None => Err, sink unchanged) every out-of-window distance.',
            'Verus function contracts + loop invariants on mechanically extracted real code', '5 C09'),
    'C10': (True,
            'Unbounded deductive proof (Verus): LzCircularBuffer::set fails iff the window would have to grow beyond memlimit and then '
            'changes nothing; append_literal/append_lz with an infallible sink fail iff min(dict_size, produced) would exceed the '
            'limit; invariant buf.len() <= memlimit; LzmaDecoder::new/decompress and lzma_decompress_with_options pass the limit '
            'unchanged and succeed whenever mem_ok(dict, limit, produced) (completeness clause). Streaming path: Stream::read_header hands '
            'options.memlimit unchanged to the window (ST.hdr.memlimit), whose clauses above then apply to every write.',
            'Verus function contracts + data-structure invariant on mechanically extracted real code', '5 C10'),
    'C11': (True,
            'Unbounded deductive proof (Verus): every reader-advancing function states advanced(input, k) with k the spec decoder byte '
            'count; LzmaDecoder::decompress / lzma_decompress_with_options: Ok => input.remaining() == spec remaining input; '
            'Lzma2Decoder::decompress: Ok => input advanced to just after the end control byte; end marker accepted only with no input left.',
            'Verus function contracts with a two-state source frame relation (src_eq)', '5 C11'),
    'C14': (True,
            'Unbounded deductive proof (Verus): DecoderState::new and reset_state establish fresh(props) over the COMPLETE state (every '
            'probability array, trees, length decoders, state, reps, literal table of the right dimension), fresh states have the same '
            'model view (lemma_fresh_model), LzmaDecoder::reset / Lzma2Decoder::reset re-establish the precondition of decompress, and '
            'decompress is a function of the view only. decompress (LZMA and LZMA2) re-establishes usable() on EVERY exit, also after a '
            'decode that failed half-way (wf() of the decoder state is a postcondition of every step on Ok and Err), so reset is callable '
            'whatever happened before.',
            'Verus function contracts (field-by-field fresh predicate)', '5 C14'),
    'C03': (True,
            'Unbounded deductive proof (Verus): xz_decompress / decode_stream REFINE the container spec sp_xz transcribed from '
            'xz-file-format-1.1.0 (stream header, any number of blocks incl. zero, block header with optional sizes / filter list / '
            'zero padding / CRC32, LZMA2 payload via the verified LZMA2 decoder, block padding, check None/CRC32/CRC64, index, footer): '
            'spec Good(out) + reliable source + infallible sink => Ok and output == concatenation of block contents; the Take / '
            'CrcDigestRead / BufReader / CountBufRead adapter nest is verified (stand-ins for the two std adapters). Blocks with more '
            'than one filter are outside the specified subset (spec Unspec, nothing claimed). CRCs are uninterpreted functions.',
            'Verus refinement proofs on mechanically extracted real code', '5 C03'),
    'C06': (True,
            'Unbounded deductive proof (Verus), Ok-implies direction: xz_decompress returns Ok only if sp_xz is Good, i.e. header magic / '
            'flags / CRC32, every block header CRC32, declared packed/unpacked sizes, zero paddings, block check == crc32_of/crc64_of '
            '(decoded data), index count / records / padding / CRC32, footer CRC32, backward size compared in mathematical integers, '
            'equal stream flags, footer magic and end of file all hold (spec Bad => Err). Collision resistance of CRC is not claimed.',
            'Verus refinement proofs (iff-contracts on every parser)', '5 C06'),
    'C13': (True,
            'Unbounded deductive proof by construction: BufRead::fill_buf is specified to return an ARBITRARY non-empty prefix of the '
            'remaining data and Read::read an arbitrary short count, every function is verified against that under-specified contract, '
            'and every postcondition is a function of remaining() only. The direct users of fill_buf/consume have functional contracts: '
            'is_eof, flush_zero_padding (Ok(true) iff all remaining bytes are zero, then all consumed), CountBufRead, CrcDigestRead, '
            'Take/BufReader stand-ins, RangeDecoder::{is_eof,is_finished_ok}; the top-level decoders (LZMA, LZMA2, XZ) have contracts '
            'that determine verdict, output and consumption from remaining() alone.',
            'Verus contracts with deliberately under-specified reader model', '5 C13'),
    'C18': (True,
            'Unbounded deductive proof (Verus): CheckMethod::try_from Ok iff id in {0,1,4,10}; StreamFlags::parse Ok iff first byte 0 and '
            'known check id (reserved bits refused); validate_block_check refuses SHA-256; get_filter_id Ok iff 0x21; reserved block '
            'flag bits => Err; sp_xz requires end of file after the footer (second stream / stream padding => Bad => Err); a block '
            'reaches the sink only after all its checks passed (spec Bad => Err and sink unchanged by that block).',
            'Verus iff-contracts on the classifiers + refinement of the container spec', '5 C18'),
    'C17': (True,
            'Unbounded deductive proof (Verus): sp_lzma2 returns None for control bytes 0x03-0x7F, props >= 225 or lc+lp > 4, payload '
            'needing more than the declared packed size, produced size != declared size, short uncompressed chunk, missing end byte; '
            'the real decoder returns Err whenever the spec does (reject clauses on decompress / parse_lzma / parse_uncompressed).',
            'Verus refinement proofs on mechanically extracted real code', '5 C17'),
    'C05': (True,
            'Unbounded deductive proof (Verus) over ALL chunkings, BOTH directions, via a per-call invariant with a universally quantified ghost history: '
            'Stream::inv(fed, sink0) relates the concrete stream state to the one-shot spec decoder after the accepted bytes `fed` (out_eq: under every '
            'continuation both decode to the same verdict and output). new_with_options establishes it for the empty history; write(data)=Ok(n) takes '
            'inv(fed) to inv(fed + data[..n]) for every fed (so for every sequence of calls, by induction at the client); flush preserves it; finish '
            'answers with sp_lzma_oneshot(fed): spec None => Err, Ok(w) => w.written() == spec output, spec Some => Ok, zero input => Ok(empty). '
            'A write FAILS only if the one-shot spec rejects every file that starts with the accepted bytes followed by `data` (ST.write.complete), so '
            'a stream error is never spurious. The two completeness clauses assume the environment cannot interfere: sink never fails, memory limit '
            '>= dictionary size. The one-shot entry point lzma_decompress_with_options is verified against the same spec function. Underneath: '
            'DecoderState::process_mode verified in Partial and Finish mode (dry run changes nothing; carried-over bytes are conserved; every real step on '
            'a look-ahead buffer is the step of the one-shot decoder by the input-locality lemmas lemma_repl_*; after the end marker nothing decodes), '
            'header staging incl. the leftover move, and three spec-level theorems proved by induction over the format spec: one symbol needs at most 20 '
            'input bytes (lemma_symbol_needs_at_most_20_bytes, potential argument on Range, margin about one bit), the dry run reads the same bits as the '
            'real run (lemma_dry_step), and a guarded step that fails fails on every longer input (lemma_step_none_stable).',
            'Verus per-call invariant (ghost history universally quantified) + spec-level induction lemmas', '5 C05'),
    'C15': (True,
            'Unbounded deductive proof (Verus): Stream::lemma_prefix_of_every_completion: under the verified invariant, what the sink has received and '
            'everything decoded so far is a prefix of the output of EVERY completion of the accepted bytes that the one-shot spec accepts; '
            'write never shrinks or rewrites the sink (ST.write.mono); finish with allow_incomplete returns exactly the bytes decoded so far and '
            'succeeds whenever the sink does (state is Data as soon as header + 5 bytes were accepted); a fragmented header is staged, not refused '
            '(ST.hdr.retry, RH.errkind). Bounded lag: after every write at most 20 accepted bytes are held undecoded (ST.write.lag), the decoder waits for more input '
            'only if the spec decoder cannot decode a symbol from the bytes held (PM.wait.justified), and 20 bytes always suffice for a symbol '
            '(lemma_symbol_needs_at_most_20_bytes) - so the output lags the input by less than one symbol + 20 bytes, inside the 64-byte allowance.',
            'Verus per-call invariant + prefix lemma', '5 C15'),
    'C16': (True,
            'Unbounded deductive proof (Verus) on Stream::{write, flush, finish}: after any Err the state is None (the sink is gone), every later '
            'write returns Ok(0) and leaves None, flush is a no-op, finish returns Err; once the size in effect has been produced write returns '
            'Ok(0) and the sink is unchanged (process_mode: done-is-identity); wf() is preserved by every call on every exit, and every '
            'arithmetic / index / slice operation in these functions is proved safe, so no call sequence panics.',
            'Verus function contracts (latch clauses) + data-structure invariant', '5 C16'),
    'C07': (True,
            'Unbounded deductive proof (Verus) of panic-freedom and termination for every decoder-side function under contract (all of '
            'src/decode/{lzbuffer,rangecoder,util,lzma,lzma2,xz,stream}.rs except the accessors named below, src/xz/*, and the lib.rs entry points '
            'lzma_decompress_with_options, lzma2_decompress, xz_decompress): every +,-,*,<<,>>,/,% is proved free of overflow / division by zero, '
            'every index and slice range in bounds (window get/set, literal table row lit_state < 1<<(lc+lp), pos_decoders offset, is_match '
            '(state<<4)+pos_state, Cursor arrays of the streaming decoder), every `unreachable` / assert! proved dead or discharged at the call '
            'site, every loop has a verified decreases measure (symbol loop: (input length, range) lexicographic; carried-over buffer added for '
            'the streaming mode), and the data-structure invariants wf() hold after every operation on every exit. Memory: window allocation is '
            'proved lazy (buf.len() <= min(dict_size, bytes produced) <= memlimit, CB.new.noalloc), the literal table is 0x300 << (lc+lp) with '
            'lc+lp <= 12 by props < 225; every explicit allocation call (vec![e; n], with_capacity, resize, reserve - extractor rule R20) '
            'carries the obligation alloc_ok(n): n <= 4 Mi elements (a constant of the format) or justified by data already held '
            '(trusted axiom_alloc_held, used for the window growing one produced byte at a time and for read_tag). Defects D2 (footer overflow) and D3 (dict_size 0) were found as failing obligations and fixed. '
            'The .lzma encoder path (from_stream, process over the verified BytesShim stand-in, encode_literal, finish, lzma_compress*) is covered as well. '
            'NOT COVERED: src/error.rs conversions, From<CheckMethod> for u8, Vec2D (3 assumed contracts), allocation failure itself, and stack depth.',
            'Verus safety obligations (overflow, bounds, termination, invariants) on mechanically extracted real code', '5 C07'),
    'C12': (True,
            'Unbounded deductive proof (Verus) against an adversarial I/O model (ExWrite: write may accept any prefix or fail at any call, flush may '
            'fail; ExRead: read may be short or fail at any call): decoders: every window operation leaves the sink holding a prefix of the correct '
            'output on every exit (LZB.*.prefix / mono, DS.step.prefix, PM.mono, AB.reset.prefix), success implies output == spec output, all of it '
            'handed to the sink with write_all and the sink flushed (LZB.finish.all, LD/L2/API .flushed); an Err of the sink or source is never '
            'turned into Ok because Ok carries the exact-output postcondition. Encoders (LZMA2, XZ): Ok => the sink received exactly the encoding '
            '(for sinks that accept only part of each write, through the write_all contract), counters count bytes actually accepted '
            '(CountWrite/CrcDigestWrite), output only grows. Defect D4 (StreamFlags::serialize used write, not write_all) was found and fixed. '
            'lzma_compress*: what the sink accepted only grows on every exit (ENC.lzma.prefix, API.lzma.enc.prefix), header first on Ok; that the '
            'range-coded payload is complete is not proved (duality gap, see C04). The prefix-on-error statement is proved per window '
            'operation and loop, not restated on the top-level decompress functions (finish() consumes the window on its error path).',
            'Verus contracts over an under-specified (failing, short-writing) sink and source model', '5 C12'),
    'C04': (True,
            'Unbounded deductive proof (Verus) for lzma2_compress and xz_compress: for every input byte string and every reader fragmentation '
            '(reads may be short at any call), Ok => the bytes written are enc(data) and the SPEC decoders sp_lzma2 / sp_xz (the ones the real '
            'decoders are verified against) decode enc(data) back to exactly data (round-trip lemma chain lemma_xz_roundtrip, l2_decodes_to), '
            'including empty input and lengths on the 64 KiB chunk boundary ((n-1) as u16 proved exact), index / padding / backward-size '
            'arithmetic, multibyte integers. For lzma_compress the proof is PARTIAL: the .lzma header written by Encoder::from_stream is proved '
            'to be read back by the decoder header parser with the same parameters for each size option (lemma_lzma_header_roundtrip); the '
            'range encoder is verified against its carry invariant (RangeEncoder::wf / re_fits: a carry out of `low` is always absorbed by '
            'the cached byte, the interval top never exceeds what the pending bytes can represent; write_low, normalize, encode_bit, finish, '
            'encode_literal, Encoder::finish, the literal loop Encoder::process (for over bytes().enumerate() desugared over a verified stand-in, rule R22) '
            'and the two lzma_compress entry points all preserve it and are overflow-free; the encoder mirrors the decoder interval and probability '
            'arithmetic bit for bit, RE.bit.mirror). NOT PROVED: that the spec decoder reads the encoded bits '
            'back from the bytes written (the value argument of range-coder duality); interoperability with an independent decoder is represented by the format spec functions, not '
            'by running liblzma.',
            'Verus encoder contracts + spec-level round-trip lemmas', '5 C04'),
}
NOT_YET = 'check not built yet (build in progress; see DESIGN.md section 8)'


def main():
    props = [json.loads(l)['id'] for l in open(os.path.join(VERIF, 'properties.jsonl'))]
    checks, na = [], []
    for p in props:
        c = CLAIMS.get(p)
        if c and c[0]:
            checks.append({
                'property_id': p,
                'quick_cmd': './vcheck %s --tier quick' % p,
                'thorough_cmd': './vcheck %s --tier thorough' % p,
                'evidence_file': '/verif/evidence/%s.json' % p,
                'replay_cmd_template': './vcheck %s --replay {path}' % p,
                'engine': 'vcheck',
                'level_claimed': {'category': 'proof', 'text': c[1], 'design_ref': 'DESIGN.md section A.4 (%s) and section %s' % (p, c[3])},
                'level_note': TRUSTED,
                'technique': c[2],
            })
        else:
            na.append({'property_id': p, 'reason': (c[4] if c and len(c) > 4 else NOT_YET)})
    m = {
        'version': 1,
        'setup_cmd': 'mkdir -p gen evidence replays .cache && verus --version >/dev/null',
        'hooks': {
            'guard': 'lzma_rs_verif',
            'enable': 'no source hooks in /repo: Verus reads /repo/src directly (mechanical extraction on every run); the thorough tier '
                      'copies findings/witness.rs into tests/ of a scratch copy of /repo under /var/tmp and runs it there (nothing is added to /repo, so the guard is unused)',
            'baseline_off_cmd': 'cd /repo && cargo test --workspace --no-fail-fast --offline',
            'source_commits': [],
            'add_only': True,
        },
        'engines': [{'name': 'vcheck', 'path': '/verif/vcheck', 'serves_properties': [c['property_id'] for c in checks],
                     'kind_free_text': 'mechanical extractor + contract overlay + Verus (Z3) deductive verifier; native replay of committed witnesses in the thorough tier (a Kani bounded stand-in was tried and dropped, DESIGN.md A.8)'}],
        'checks': checks,
        'not_applicable': na,
        'notes': 'Exit 2 (UNDECIDED) is used for tool limits (lost anchor, rlimit, unsupported construct) and never occurs on the unchanged tree.',
    }
    json.dump(m, open(os.path.join(VERIF, 'MANIFEST.json'), 'w'), indent=1)
    print('claimed:', [c['property_id'] for c in checks])


if __name__ == '__main__':
    main()
