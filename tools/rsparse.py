"""Minimal Rust surface scanner used by the extractor and the overlay injector.

It does not parse Rust; it masks comments / string / char literals so that brace matching and
keyword searches on the masked text are safe, and it locates items (mod / impl / trait / fn) and
loops by position.  All positions refer to the original text (mask preserves length).
"""
import re


class ScanError(Exception):
    pass


def mask(src):
    """Return a same-length copy of src with comments, strings and char literals blanked."""
    out = list(src)
    i, n = 0, len(src)

    def blank(a, b):
        for k in range(a, b):
            if out[k] != '\n':
                out[k] = ' '

    while i < n:
        c = src[i]
        if c == '/' and i + 1 < n and src[i + 1] == '/':
            j = src.find('\n', i)
            j = n if j < 0 else j
            blank(i, j)
            i = j
        elif c == '/' and i + 1 < n and src[i + 1] == '*':
            depth, j = 1, i + 2
            while j < n and depth:
                if src.startswith('/*', j):
                    depth += 1
                    j += 2
                elif src.startswith('*/', j):
                    depth -= 1
                    j += 2
                else:
                    j += 1
            blank(i, j)
            i = j
        elif c == '"' or (c == 'b' and i + 1 < n and src[i + 1] == '"' and not (i and (src[i - 1].isalnum() or src[i - 1] == '_'))):
            j = i + (2 if c == 'b' else 1)
            while j < n and src[j] != '"':
                j += 2 if src[j] == '\\' else 1
            blank(i + (2 if c == 'b' else 1), j)
            i = j + 1
        elif c == 'r' and not (i and (src[i - 1].isalnum() or src[i - 1] == '_')) and re.match(r'r#*"', src[i:i + 8]):
            m = re.match(r'r(#*)"', src[i:])
            end = '"' + m.group(1)
            j = src.find(end, i + m.end())
            j = n if j < 0 else j
            blank(i + m.end(), j)
            i = j + len(end)
        elif c == "'":
            # char literal or lifetime
            if i + 1 < n and src[i + 1] == '\\':
                j = src.find("'", i + 2)
                if j >= 0 and src[j - 1] == '\\' and src[j - 2] != '\\':
                    j = src.find("'", j + 1)
                blank(i + 1, j)
                i = j + 1
            elif i + 2 < n and src[i + 2] == "'":
                blank(i + 1, i + 2)
                i += 3
            else:
                i += 1  # lifetime
        else:
            i += 1
    return ''.join(out)


def match_close(m, i, open_c='{', close_c='}'):
    """m masked text, m[i] == open_c; return index of matching close."""
    assert m[i] == open_c, (m[i - 20:i + 20], i)
    d = 0
    n = len(m)
    while i < n:
        c = m[i]
        if c == open_c:
            d += 1
        elif c == close_c:
            d -= 1
            if d == 0:
                return i
        i += 1
    raise ScanError('unbalanced %s at %d' % (open_c, i))


_KW = re.compile(r'\b(mod|impl|trait|fn)\b')


def _sig_end(m, i):
    """From position i (after `fn name`), find the `{` opening the body or the `;` ending a
    declaration, at paren/bracket depth 0.  Const-generic braces `<{ .. }>` are skipped when the
    previous non-space char is `<` or `,` inside angle brackets."""
    d = 0
    a = 0  # angle-bracket depth
    n = len(m)
    while i < n:
        c = m[i]
        if c in '([':
            d += 1
        elif c in ')]':
            d -= 1
        elif c == '<':
            a += 1
        elif c == '>' and m[i - 1] != '-':
            a -= 1
        elif c == '{' and d == 0:
            if a > 0:  # const generic argument `<{ .. }>`
                i = match_close(m, i)
            else:
                return i
        elif c == ';' and d == 0 and a <= 0:
            return i
        i += 1
    raise ScanError('no signature end')


class Item:
    def __init__(self, kind, name, start, sig_end, end, path, attrs_start, header=''):
        self.kind = kind          # 'mod' | 'impl' | 'trait' | 'fn'
        self.name = name          # fn name / mod name / impl key / trait name
        self.start = start        # position of the keyword (after visibility qualifiers)
        self.sig_end = sig_end    # position of `{` (or `;`)
        self.end = end            # position of the matching `}` (== sig_end for `;`)
        self.path = path          # container path list (modules, impl key)
        self.attrs_start = attrs_start  # start of the line holding the first attribute / qualifier
        self.header = header
        self.children = []

    @property
    def has_body(self):
        return self.end != self.sig_end

    def qual(self):
        return '::'.join(self.path + [self.name])


def _impl_key(header):
    """header: text between `impl` and `{`.  Return key 'Type' or 'Trait for Type' (generics
    stripped)."""
    h = re.sub(r'\s+', ' ', header).strip()
    # drop where clause
    h = re.split(r'\bwhere\b', h)[0].strip()
    # drop leading generics <...>
    if h.startswith('<'):
        d = 0
        for k, c in enumerate(h):
            if c == '<':
                d += 1
            elif c == '>' and h[k - 1] != '-':
                d -= 1
                if d == 0:
                    h = h[k + 1:].strip()
                    break

    def base(t):
        t = t.strip()
        t = re.sub(r"^&\s*('\w+\s+)?(mut\s+)?", '', t)
        d = 0
        out = ''
        for c in t:
            if c == '<':
                d += 1
            elif c == '>':
                d -= 1
            elif d == 0:
                out += c
        return out.strip().split('::')[-1]

    if ' for ' in h:
        tr, ty = h.split(' for ', 1)
        return base(tr) + ' for ' + base(ty)
    return base(h)


def line_start(src, pos):
    return src.rfind('\n', 0, pos) + 1


def _attrs_start(src, m, kwpos):
    """Walk back from the keyword over qualifiers and preceding attribute / doc-comment lines."""
    ls = line_start(src, kwpos)
    # keyword may be preceded on its line by `pub`, `pub(crate)`, `const`, `unsafe`, `async`...
    while True:
        if ls == 0:
            return ls
        prev_ls = line_start(src, ls - 1)
        prev = src[prev_ls:ls - 1].strip()
        if prev.startswith('#[') or prev.startswith('///') or prev.startswith('//'):
            ls = prev_ls
            continue
        # multi-line attribute ending with `)]`
        if prev.endswith(')]') and not prev.startswith('#['):
            # walk back to the line that starts the attribute
            k = prev_ls
            while k > 0 and not src[k:ls].lstrip().startswith('#['):
                k = line_start(src, k - 1)
            if src[k:ls].lstrip().startswith('#['):
                ls = k
                continue
        return ls


def items(src, m=None, lo=0, hi=None, path=None):
    """Yield Item trees for the region [lo, hi) of src."""
    if m is None:
        m = mask(src)
    if hi is None:
        hi = len(src)
    path = path or []
    res = []
    i = lo
    while True:
        mo = _KW.search(m, i, hi)
        if not mo:
            break
        kw = mo.group(1)
        p = mo.start()
        # `impl` in argument position (`impl Trait`) or `fn` pointer types: require that the
        # keyword starts an item: previous non-space token is one of `}` `;` `{` `]` `)` (attr) or
        # a qualifier word.
        k = p - 1
        while k >= lo and m[k].isspace():
            k -= 1
        prevtok = ''
        if k >= lo:
            if m[k].isalnum() or m[k] == '_':
                e = k
                while k >= lo and (m[k].isalnum() or m[k] == '_'):
                    k -= 1
                prevtok = m[k + 1:e + 1]
            else:
                prevtok = m[k]
        ok = prevtok in ('', '}', ';', '{', ']', ')', 'pub', 'const', 'unsafe', 'async', 'extern', 'default', 'exec', 'spec', 'proof', 'open', 'closed', 'uninterp')
        if not ok:
            i = mo.end()
            continue
        if kw == 'mod':
            mm = re.compile(r'\s+(\w+)\s*([{;])').match(m, mo.end())
            if not mm:
                i = mo.end()
                continue
            name = mm.group(1)
            if mm.group(2) == ';':
                i = mm.end()
                continue
            ob = mm.end() - 1
            cb = match_close(m, ob)
            it = Item('mod', name, p, ob, cb, path, _attrs_start(src, m, p))
            it.children = items(src, m, ob + 1, cb, path + [name])
            res.append(it)
            i = cb + 1
        elif kw in ('impl', 'trait'):
            ob = _sig_end(m, mo.end())
            if m[ob] == ';':
                i = ob + 1
                continue
            cb = match_close(m, ob)
            header = src[mo.end():ob]
            if kw == 'impl':
                name = _impl_key(m[mo.end():ob])
            else:
                name = re.match(r'\s*(\w+)', m[mo.end():ob]).group(1)
            it = Item(kw, name, p, ob, cb, path, _attrs_start(src, m, p), header)
            # path component for children: for `Trait for Type` use Type, and remember trait
            comp = name.split(' for ')[-1]
            it.children = items(src, m, ob + 1, cb, path + [comp])
            for ch in it.children:
                ch.container = it
            res.append(it)
            i = cb + 1
        else:  # fn
            mm = re.compile(r'\s+(\w+)').match(m, mo.end())
            if not mm:
                i = mo.end()
                continue
            name = mm.group(1)
            se = _sig_end(m, mm.end())
            if m[se] == ';':
                it = Item('fn', name, p, se, se, path, _attrs_start(src, m, p))
                i = se + 1
            else:
                cb = match_close(m, se)
                it = Item('fn', name, p, se, cb, path, _attrs_start(src, m, p))
                i = cb + 1
            it.container = None
            res.append(it)
    return res


def walk(its):
    for it in its:
        yield it
        if it.kind != 'fn':
            yield from walk(it.children)


_LOOP = re.compile(r'\b(for|while|loop)\b')


def loops(src, m, body_lo, body_hi):
    """Return list of (kw_pos, open_brace_pos, close_brace_pos) for loops in the body, in textual
    order (outer before inner)."""
    res = []
    i = body_lo
    while True:
        mo = _LOOP.search(m, i, body_hi)
        if not mo:
            break
        p = mo.start()
        kw = mo.group(1)
        # `for` in `for<'a>` HRTB or `impl X for Y` cannot appear inside bodies we handle.
        d = 0
        j = mo.end()
        ob = None
        while j < body_hi:
            c = m[j]
            if c in '([':
                d += 1
            elif c in ')]':
                d -= 1
            elif c == '{' and d == 0:
                ob = j
                break
            elif c == ';' and d == 0:
                break
            j += 1
        if ob is None:
            i = mo.end()
            continue
        if kw == 'for' and not re.search(r'\bin\b', m[mo.end():ob]):
            i = mo.end()
            continue
        cb = match_close(m, ob)
        res.append((p, ob, cb))
        i = ob + 1
    return res


def ret_type_span(m, fn_item):
    """Return (start, end) of the return type text in the signature, or None."""
    lo, hi = fn_item.start, fn_item.sig_end
    d = 0
    i = lo
    arrow = None
    while i < hi:
        c = m[i]
        if c in '([':
            d += 1
        elif c in ')]':
            d -= 1
        elif c == '-' and m[i + 1] == '>' and d == 0:
            arrow = i
            break
        i += 1
    if arrow is None:
        return None
    s = arrow + 2
    while m[s].isspace():
        s += 1
    # type ends at `where` (depth 0) or at sig_end
    wm = re.compile(r'\bwhere\b').search(m, s, hi)
    e = wm.start() if wm else hi
    while m[e - 1].isspace():
        e -= 1
    return (s, e)
