"""Generate gen/lzma_rs_verus.rs = prelude + spec library + mechanically extracted /repo/src with the
overlay contracts inserted (insert-only; erasure check proves verified text == extracted text).
"""
import os
import re
import sys
import json
import hashlib
from collections import Counter, OrderedDict

HERE = os.path.dirname(os.path.abspath(__file__))
sys.path.insert(0, HERE)
import rsparse  # noqa: E402
import extract  # noqa: E402
import overlay  # noqa: E402

VERIF = os.path.dirname(HERE)
REPO_SRC = os.environ.get('VERIF_REPO', '/repo') + '/src'


class GenError(Exception):
    pass


MOD_HEADER = ('#[allow(unused_imports)] use vstd::prelude::*;\n'
              '#[allow(unused_imports)] use crate::vspec::*;\n'
              '#[allow(unused_imports)] use crate::{ReadSpec, WriteSpec, BufReadSpec};\n'
              '#[allow(unused_imports)] use crate::{tz, advanced, is_suffix, cursor_pos, cursor_inner};\n'
              'broadcast use {crate::ax::axiom_src_eq_refl, crate::ax::axiom_src_eq_trans, crate::ax::axiom_snk_eq_refl, crate::ax::axiom_snk_eq_trans, crate::ax::axiom_slice_u8_eq, crate::vspec::lemma_skip_skip, crate::vspec::lemma_lens_eq, crate::vspec::lemma_seqs_eq, crate::vspec::lemma_lzs_eq};\n')


class Seg:
    __slots__ = ('text', 'ins', 'meta')

    def __init__(self, text, ins=False, meta=None):
        self.text = text
        self.ins = ins
        self.meta = meta


def _fn_key(modpath, it):
    parts = ([modpath] if modpath else []) + it.path + [it.name]
    return '::'.join(p for p in parts if p)


def _container_key(modpath, it):
    parts = ([modpath] if modpath else []) + it.path + [it.name]
    return '::'.join(p for p in parts if p)


def annotate_module(modpath, src, ov, report):
    """Return list of Seg for one module's rewritten source with overlay inserted."""
    m = rsparse.mask(src)
    its = list(rsparse.walk(rsparse.items(src, m)))
    inserts = []  # (pos, order, text, meta)
    order = [0]

    def ins(pos, text, meta=None):
        order[0] += 1
        inserts.append((pos, order[0], text, meta))

    # remove nothing; only insert
    for it in its:
        if it.kind in ('trait', 'impl'):
            key = _container_key(modpath, it) if it.kind == 'trait' else None
            if it.kind == 'trait':
                txt = ov.intrait.get(key)
                if txt:
                    ins(it.end, txt, {'kind': 'intrait', 'key': key})
                    report['used_containers'].add(('intrait', key))
            else:
                ikey = '::'.join(p for p in ([modpath] if modpath else []) + it.path if p) + '::' + it.name
                txt = ov.inimpl.get(ikey)
                if txt:
                    ins(it.end, txt, {'kind': 'inimpl', 'key': ikey})
                    report['used_containers'].add(('inimpl', ikey))
            continue
        if it.kind != 'fn':
            continue
        # qualified name; trait impl methods: Type::name, and alternative `Type as Trait::name`
        q = _fn_key(modpath, it)
        cont = getattr(it, 'container', None)
        q_alt = None
        if cont is not None and cont.kind == 'impl' and ' for ' in cont.name:
            tr, ty = cont.name.split(' for ')
            q_alt = '::'.join(p for p in ([modpath] if modpath else []) + it.path[:-1] if p)
            q_alt = (q_alt + '::' if q_alt else '') + '%s@%s::%s' % (ty, tr, it.name)
        fo = None
        if q_alt and q_alt in ov.fns:
            fo = ov.fns[q_alt]
            q = q_alt
        elif q in ov.fns:
            fo = ov.fns[q]
        in_trait_decl = cont is not None and cont.kind == 'trait'
        if fo is None:
            if it.has_body:
                ins(it.attrs_start, _indent_of(src, it.start) + '#[verifier::external_body]\n',
                    {'kind': 'external_body', 'fn': q})
                report['uncovered'].append(q)
            elif in_trait_decl:
                report['trait_decl_nospec'].append(q)
            continue
        report['covered'][q] = fo
        fo.used = True
        if cont is not None and cont.kind == 'impl' and ' for ' in cont.name:
            trq = '::'.join(p for p in ([modpath] if modpath else []) if p)
            trq = (trq + '::' if trq else '') + cont.name.split(' for ')[0] + '::' + it.name
            report['trait_of'][q] = trq
        meta_base = {'fn': q, 'props': fo.props}
        for a in fo.attrs:
            ins(it.attrs_start, _indent_of(src, it.start) + a + '\n', dict(meta_base, kind='attr'))
        demoted = q in report.get('demote', ())
        if fo.assume_external or demoted:
            ins(it.attrs_start, _indent_of(src, it.start) + '#[verifier::external_body]\n',
                dict(meta_base, kind='assume_external'))
            if demoted:
                report['demoted'].append(q)
            else:
                report['assumed_contracts'].append(q)
        if fo.ret:
            sp = rsparse.ret_type_span(m, it)
            if sp is None:
                raise GenError('%s: @ret but no return type' % q)
            ins(sp[0], '(%s: ' % fo.ret, dict(meta_base, kind='ret'))
            ins(sp[1], ')', dict(meta_base, kind='ret'))
        if fo.spec:
            ins(it.sig_end, '\n' + fo.spec, dict(meta_base, kind='spec'))
        if not it.has_body:
            continue
        if fo.assume_external or demoted:
            continue
        if fo.entry:
            ins(it.sig_end + 1, '\n' + fo.entry, dict(meta_base, kind='entry'))
        if fo.exit:
            ins(it.end, fo.exit, dict(meta_base, kind='exit'))
        lps = rsparse.loops(src, m, it.sig_end + 1, it.end)
        report['loops'][q] = len(lps)
        for k, lp in sorted(fo.loops.items()):
            if k < 1 or k > len(lps):
                report['lost_anchors'].append('%s: loop %d (function has %d loops)' % (q, k, len(lps)))
                continue
            kw, ob, cb = lps[k - 1]
            if lp['iter']:
                mo = re.compile(r'\bin\s+').search(m, kw, ob)
                if not mo:
                    report['lost_anchors'].append('%s: loop %d iter' % (q, k))
                else:
                    ins(mo.end(), lp['iter'] + ': ', dict(meta_base, kind='loop_iter', loop=k))
            if lp['inv']:
                ins(ob, '\n' + lp['inv'], dict(meta_base, kind='loop_inv', loop=k))
            if lp['start']:
                ins(ob + 1, '\n' + lp['start'], dict(meta_base, kind='loop_start', loop=k))
            if lp['end']:
                # a loop body ending in a unit tail expression (`x = e` without `;`) needs a `;`
                # before ghost text can follow; semantically neutral, counted as R14
                kk = cb - 1
                while m[kk].isspace():
                    kk -= 1
                semi = '' if m[kk] in ';}{' else ';'
                if semi:
                    report['rule_counts']['R14.loop_tail_semicolon'] += 1
                ins(cb, semi + '\n' + lp['end'], dict(meta_base, kind='loop_end', loop=k))
        for kind0, rx0, text in fo.anchors:
            body = src[it.sig_end + 1:it.end]
            off = it.sig_end + 1
            # `@after A ||| @before B`: alternatives that denote the same program point in the unchanged code; the first
            # one that matches is used, so that a change to the line of one of them does not lose the anchor
            alts = [(kind0, rx0)]
            if ' ||| ' in rx0:
                parts = rx0.split(' ||| ')
                alts = [(kind0, parts[0].strip())]
                for p_ in parts[1:]:
                    k_, r_ = p_.strip().split(None, 1)
                    alts.append((k_.lstrip('@'), r_.strip()))
            pos = None
            for kind, rx in alts:
                nth = 1
                mo_n = re.search(r'#(\d+)$', rx)
                if mo_n:
                    nth = int(mo_n.group(1))
                    rx = rx[:mo_n.start()]
                seen = 0
                for lm in re.finditer(r'[^\n]*\n', body):
                    if re.search(rx, lm.group(0)):
                        seen += 1
                        if seen == nth:
                            pos = off + (lm.start() if kind == 'before' else lm.end())
                            break
                if pos is not None:
                    break
            report['fragile_anchors'] += 1
            if pos is None:
                report['lost_anchors'].append('%s: @%s %s' % (q, kind0, rx0))
                continue
            ins(pos, text, dict(meta_base, kind='anchor'))

    # module-level ghost items
    txt = ov.module_items.get(modpath)
    if txt:
        ins(len(src), '\n' + txt, {'kind': 'module_items', 'key': modpath})
        report['used_containers'].add(('module', modpath))

    inserts.sort(key=lambda x: (x[0], x[1]))
    segs = []
    i = 0
    for pos, _, text, meta in inserts:
        if pos > i:
            segs.append(Seg(src[i:pos]))
            i = pos
        segs.append(Seg(text, True, meta))
    segs.append(Seg(src[i:]))
    # fn spans (original coordinates) for line attribution
    spans = []
    for it in its:
        if it.kind == 'fn' and it.has_body:
            q = _fn_key(modpath, it)
            cont = getattr(it, 'container', None)
            if cont is not None and cont.kind == 'impl' and ' for ' in cont.name:
                tr, ty = cont.name.split(' for ')
                qa = '::'.join(p for p in ([modpath] if modpath else []) + it.path[:-1] if p)
                qa = (qa + '::' if qa else '') + '%s@%s::%s' % (ty, tr, it.name)
                if qa in ov.fns:
                    q = qa
            spans.append((it.attrs_start, it.end, q))
    return segs, spans


def _indent_of(src, pos):
    ls = rsparse.line_start(src, pos)
    return re.match(r'[ \t]*', src[ls:]).group(0)


def build_tree(mod_texts):
    """mod_texts: OrderedDict modpath -> text.  Return nested text."""
    root = {'text': mod_texts.get('', ''), 'children': OrderedDict()}
    for mp, text in mod_texts.items():
        if mp == '':
            continue
        node = root
        for part in mp.split('::'):
            node = node['children'].setdefault(part, {'text': '', 'children': OrderedDict()})
        node['text'] = text
    return root


def generate_spec_only(outpath, contracts_dir=None):
    """prelude + adapters + the format-specification library, without any extracted code: what is verified here
    does not depend on /repo at all."""
    contracts_dir = contracts_dir or os.path.join(VERIF, 'contracts')
    prelude = open(os.path.join(contracts_dir, 'prelude.rs')).read()
    spec_files = sorted(f for f in os.listdir(os.path.join(contracts_dir, 'spec')) if f.endswith('.rs'))
    spec_text = ''.join(open(os.path.join(contracts_dir, 'spec', f)).read() for f in spec_files)
    txt = ('// GENERATED by /verif/tools/gen.py (specification library only) -- do not edit.\n'
           '#![feature(allocator_api)]\n#![allow(unused_imports, dead_code, unused_variables, unused_mut, unused_assignments, non_snake_case, unused_parens, unused_braces)]\n'
           'use vstd::prelude::*;\nverus! {\n' + prelude + open(os.path.join(contracts_dir, 'adapters.rs')).read()
           + '\npub mod vspec {\n#[allow(unused_imports)] use vstd::prelude::*;\n#[allow(unused_imports)] use crate::{ReadSpec, WriteSpec, BufReadSpec};\n'
           + spec_text + '\n} // mod vspec\n} // verus!\nfn main() {}\n')
    open(outpath, 'w').write(txt)
    return outpath


def generate(outpath, repo_src=None, contracts_dir=None, demote=()):
    repo_src = repo_src or REPO_SRC
    contracts_dir = contracts_dir or os.path.join(VERIF, 'contracts')
    ov = overlay.load(contracts_dir)
    report = {
        'uncovered': [], 'covered': {}, 'assumed_contracts': [], 'lost_anchors': [],
        'fragile_anchors': 0, 'loops': {}, 'trait_decl_nospec': [], 'used_containers': set(),
        'rule_counts': Counter(), 'trait_of': {}, 'demote': set(demote), 'demoted': [],
    }
    prelude = open(os.path.join(contracts_dir, 'prelude.rs')).read()
    spec_files = sorted(f for f in os.listdir(os.path.join(contracts_dir, 'spec')) if f.endswith('.rs'))
    spec_text = ''.join(open(os.path.join(contracts_dir, 'spec', f)).read() for f in spec_files)

    # (text, ins, meta, modpath) stream
    out = []          # list of (text, inserted:bool, meta)
    erase_src = []    # rewritten sources concatenated (for erasure check)
    mod_segs = OrderedDict()
    mod_spans = {}
    src_hash = hashlib.sha256()
    for mp, f in extract.MODULES:
        path = os.path.join(repo_src, f)
        if not os.path.exists(path):
            raise GenError('missing source file %s' % path)
        src_hash.update(open(path, 'rb').read())
        text, counts = extract.extract_file(path, mp)
        report['rule_counts'] += counts
        # drop `mod x;` declarations and crate-level inner attributes / macro_use (lib.rs, xz/mod.rs)
        text, k = re.subn(r'(?m)^(?:#\[macro_use\]\n)?(?:pub(?:\(crate\))? )?mod \w+;\n', '', text)
        report['rule_counts']['R0.mod_decl'] += k
        text, k = re.subn(r'(?m)^#!\[[^\n]*\]\n', '', text)
        report['rule_counts']['R0.inner_attr'] += k
        segs, spans = annotate_module(mp, text, ov, report)
        mod_segs[mp] = (text, segs)
        mod_spans[mp] = spans

    for q, fo in ov.fns.items():
        if not getattr(fo, 'used', False):
            report['lost_anchors'].append('function %s (overlay %s:%d) not found in /repo/src' % (q, fo.src[0], fo.src[1]))
    for kind, tbl in (('module', ov.module_items), ('intrait', ov.intrait), ('inimpl', ov.inimpl)):
        for key in tbl:
            if (kind, key) not in report['used_containers']:
                report['lost_anchors'].append('%s %s not found' % (kind, key))

    # assemble nested modules
    linemap = {}      # line -> meta
    pieces = []
    state = {'line': 1}

    def emit(text, meta=None):
        if not text:
            return
        n = text.count('\n')
        if meta is not None:
            last = state['line'] + n - (1 if text.endswith('\n') else 0)
            lines = text.split('\n')
            for k, ln in enumerate(range(state['line'], last + 1)):
                md = meta
                ct = overlay.clause_tags(lines[k]) if k < len(lines) else None
                if ct:
                    md = dict(meta)
                    md['obligation'], md['clause_props'] = ct
                    md['text'] = lines[k].strip()
                linemap.setdefault(ln, md)
        pieces.append(text)
        state['line'] += n

    emit('// GENERATED by /verif/tools/gen.py from /repo/src -- do not edit.\n')
    emit('#![feature(allocator_api)]\n#![allow(unused_imports, dead_code, unused_variables, unused_mut, unused_assignments, non_snake_case, unused_parens, unused_braces)]\n')
    emit('use vstd::prelude::*;\nverus! {\n')
    emit(prelude, {'kind': 'prelude'})
    emit(open(os.path.join(contracts_dir, 'adapters.rs')).read(), {'kind': 'adapters'})
    emit('\npub mod vspec {\n#[allow(unused_imports)] use vstd::prelude::*;\n#[allow(unused_imports)] use crate::{ReadSpec, WriteSpec, BufReadSpec};\n')
    emit(spec_text, {'kind': 'spec'})
    emit('\n} // mod vspec\n')

    tree = OrderedDict()
    for mp in mod_segs:
        node = tree
        if mp:
            for part in mp.split('::'):
                node = node.setdefault(part, OrderedDict())
        node['__self__'] = mp

    erased = []

    def emit_mod(mp):
        text, segs = mod_segs[mp]
        spans = mod_spans[mp]
        pos = 0
        for s in segs:
            if s.ins:
                meta = dict(s.meta or {})
                meta['module'] = mp
                # per-line clause tags
                base_line = state['line']
                emit(s.text)
                for k, l in enumerate(s.text.split('\n')):
                    md = dict(meta)
                    ct = overlay.clause_tags(l)
                    if ct:
                        md['obligation'], md['clause_props'] = ct
                    md['text'] = l.strip()
                    linemap[base_line + k] = md
            else:
                # original text: attribute lines to enclosing fn
                start_line = state['line']
                emit(s.text)
                erased.append(s.text)
                # map each line of this chunk to a fn if inside one
                off = pos
                ln = start_line
                for l in s.text.split('\n'):
                    for a, b, q in spans:
                        if a <= off <= b:
                            linemap.setdefault(ln, {'kind': 'body', 'fn': q, 'module': mp})
                            break
                    off += len(l) + 1
                    ln += 1
                pos += len(s.text)
        if ''.join(sg.text for sg in segs if not sg.ins) != text:
            raise GenError('erasure check failed for module %s' % mp)

    def emit_tree(node, name, depth):
        mp = node.get('__self__')
        if name is not None:
            emit('pub mod %s {\n%s' % (name, MOD_HEADER))
        if mp is not None:
            emit_mod(mp)
        for k, ch in node.items():
            if k == '__self__':
                continue
            emit_tree(ch, k, depth + 1)
        if name is not None:
            emit('\n} // mod %s\n' % name)

    # root module content (lib.rs) last so that `use` of child modules resolves either way
    for k, ch in tree.items():
        if k == '__self__':
            continue
        emit_tree(ch, k, 1)
    if '' in mod_segs:
        emit('#[allow(unused_imports)] use crate::vspec::*;\n')
        emit_mod('')
    emit('\n} // verus!\nfn main() {}\n')

    os.makedirs(os.path.dirname(outpath), exist_ok=True)
    with open(outpath, 'w') as fh:
        fh.write(''.join(pieces))
    report['src_sha256'] = src_hash.hexdigest()
    report['linemap'] = linemap
    report['overlay'] = ov
    report['lines'] = state['line']
    return report


if __name__ == '__main__':
    out = sys.argv[1] if len(sys.argv) > 1 else os.path.join(VERIF, 'gen', 'lzma_rs_verus.rs')
    rep = generate(out)
    print('generated', out, rep['lines'], 'lines;', len(rep['covered']), 'fns under contract;',
          len(rep['uncovered']), 'external_body;', 'lost anchors:', rep['lost_anchors'])
    print(dict(rep['rule_counts']))
