// ===========================================================================================
// TRUSTED PRELUDE -- the complete assumption surface of the Verus side (DESIGN.md 2.3).
// Everything here is ASSUMED, not proved: external trait specifications for std::io, the
// byteorder / crc shims (R10, R11), std container methods without a vstd spec, and the two
// src_eq axioms.  /verif/tools/scan_trusted.py lists every item of this file in the evidence.
// ===========================================================================================

// ASSUMPTION: 64-bit target (usize == u64).  On a 32-bit target `dict_size + cursor` in
// lzbuffer.rs can exceed usize::MAX for dictionaries >= 2^31 (noted in DESIGN.md, section 6).
global size_of usize == 8;

#[verifier::external_type_specification]
#[verifier::external_body]
pub struct ExIoError(std::io::Error);

#[verifier::external_type_specification]
#[verifier::external_body]
pub struct ExIoErrorKind(std::io::ErrorKind);

// ---- std::io::Write ------------------------------------------------------------------------
// Ghost view: written() = every byte the sink has accepted so far; infallible() = the sink never
// reports an error (used to state "Err <==> memlimit exceeded" and success clauses).
#[verifier::external_trait_specification]
#[verifier::external_trait_extension(WriteSpec via WriteSpecImpl)]
pub trait ExWrite {
    type ExternalTraitSpecificationFor: std::io::Write;
    spec fn written(&self) -> Seq<u8>;
    spec fn infallible(&self) -> bool;
    /// position in written() up to which the sink has been flushed
    spec fn flushed(&self) -> nat;
    /// two-state frame relation "same underlying sink, not re-seated" (prophetic, like ReadSpec::src_eq)
    #[verifier::prophetic]
    spec fn snk_eq(&self, o: &Self) -> bool;
    fn write(&mut self, buf: &[u8]) -> (r: std::io::Result<usize>)
        ensures
            (*final(self)).snk_eq(&*old(self)),
            (*final(self)).infallible() == (*old(self)).infallible(),
            r matches Ok(n) ==> n <= buf@.len()
                && (*final(self)).written() == (*old(self)).written() + buf@.take(n as int),
            r is Err ==> (*final(self)).written() == (*old(self)).written(),
            (*old(self)).infallible() ==> r is Ok,
            (*final(self)).flushed() <= (*final(self)).written().len();
    fn write_all(&mut self, buf: &[u8]) -> (r: std::io::Result<()>)
        ensures
            (*final(self)).snk_eq(&*old(self)),
            (*final(self)).infallible() == (*old(self)).infallible(),
            r is Ok ==> (*final(self)).written() == (*old(self)).written() + buf@,
            r is Err ==> (*old(self)).written().is_prefix_of((*final(self)).written())
                && (*final(self)).written().is_prefix_of((*old(self)).written() + buf@),
            (*old(self)).infallible() ==> r is Ok,
            (*final(self)).flushed() <= (*final(self)).written().len();
    fn flush(&mut self) -> (r: std::io::Result<()>)
        ensures
            (*final(self)).snk_eq(&*old(self)),
            (*final(self)).infallible() == (*old(self)).infallible(),
            (*final(self)).written() == (*old(self)).written(),
            r is Ok ==> (*final(self)).flushed() == (*final(self)).written().len(),
            (*old(self)).infallible() ==> r is Ok;
}

// `&mut W` is a sink that forwards to W (std's blanket impl): its ghost view is W's view.
impl<'a, W: std::io::Write> WriteSpecImpl for &'a mut W {
    open spec fn written(&self) -> Seq<u8> { (**self).written() }
    open spec fn infallible(&self) -> bool { (**self).infallible() }
    open spec fn flushed(&self) -> nat { (**self).flushed() }
    #[verifier::prophetic]
    open spec fn snk_eq(&self, o: &Self) -> bool {
        mut_ref_future(*self) == mut_ref_future(*o) && (**self).snk_eq(&**o)
    }
}

// ---- std::io::Read / BufRead ---------------------------------------------------------------
// Ghost view: remaining() = the bytes this reader will still deliver (absent I/O errors);
// reliable() = the reader never reports an I/O error while bytes remain;
// src_eq(o) = two-state frame relation "same underlying source, not re-seated" (prophetic: for
// readers holding a `&mut` it mentions mut_ref_future).  Every operation preserves it.
#[verifier::external_trait_specification]
#[verifier::external_trait_extension(ReadSpec via ReadSpecImpl)]
pub trait ExRead {
    type ExternalTraitSpecificationFor: std::io::Read;
    spec fn remaining(&self) -> Seq<u8>;
    spec fn reliable(&self) -> bool;
    /// a greedy reader hands over as much as fits on every read and exposes all it has on fill_buf
    /// (in-memory readers such as Cursor<&[u8]>); nothing is assumed of a reader that is not greedy
    spec fn greedy(&self) -> bool;
    #[verifier::prophetic]
    spec fn src_eq(&self, o: &Self) -> bool;
    fn read(&mut self, buf: &mut [u8]) -> (r: std::io::Result<usize>)
        ensures
            (*final(self)).src_eq(&*old(self)),
            (*final(self)).reliable() == (*old(self)).reliable(),
            (*final(self)).greedy() == (*old(self)).greedy(),
            r matches Ok(n) ==> (*old(self)).greedy() ==> n == old(buf)@.len() || n == (*old(self)).remaining().len(),
            final(buf)@.len() == old(buf)@.len(),
            r matches Ok(n) ==> n <= old(buf)@.len() && n <= (*old(self)).remaining().len()
                && (*final(self)).remaining() == (*old(self)).remaining().skip(n as int)
                && final(buf)@.take(n as int) == (*old(self)).remaining().take(n as int)
                && final(buf)@.skip(n as int) == old(buf)@.skip(n as int)
                && (n == 0 ==> old(buf)@.len() == 0 || (*old(self)).remaining().len() == 0),
            // std::io::Read::read: "If an error is returned then it must be guaranteed that no bytes were read."
            r is Err ==> (*final(self)).remaining() == (*old(self)).remaining(),
            (*old(self)).reliable() ==> r is Ok;
    fn read_exact(&mut self, buf: &mut [u8]) -> (r: std::io::Result<()>)
        ensures
            (*final(self)).src_eq(&*old(self)),
            (*final(self)).reliable() == (*old(self)).reliable(),
            (*final(self)).greedy() == (*old(self)).greedy(),
            final(buf)@.len() == old(buf)@.len(),
            r is Ok ==> old(buf)@.len() <= (*old(self)).remaining().len()
                && (*final(self)).remaining() == (*old(self)).remaining().skip(old(buf)@.len() as int)
                && final(buf)@ == (*old(self)).remaining().take(old(buf)@.len() as int),
            r is Err ==> crate::is_suffix((*final(self)).remaining(), (*old(self)).remaining()),
            (*old(self)).remaining().len() < old(buf)@.len() ==> r is Err,
            (*old(self)).reliable() && (*old(self)).remaining().len() >= old(buf)@.len() ==> r is Ok;
}

#[verifier::external_trait_specification]
#[verifier::external_trait_extension(BufReadSpec via BufReadSpecImpl)]
pub trait ExBufRead: std::io::Read {
    type ExternalTraitSpecificationFor: std::io::BufRead;
    /// number of bytes the last fill_buf exposed and that have not been consumed since
    spec fn buffered(&self) -> nat;
    // Deliberately UNDER-specified (C13): any non-empty prefix of remaining() may be exposed.
    fn fill_buf(&mut self) -> (r: std::io::Result<&[u8]>)
        ensures
            (*final(self)).src_eq(&*old(self)),
            (*final(self)).reliable() == (*old(self)).reliable(),
            (*final(self)).greedy() == (*old(self)).greedy(),
            r matches Ok(b) ==> (*old(self)).greedy() ==> b@ == (*old(self)).remaining(),
            r matches Ok(b) ==> (*final(self)).remaining() == (*old(self)).remaining()
                && b@.is_prefix_of((*old(self)).remaining())
                && (b@.len() == 0 <==> (*old(self)).remaining().len() == 0)
                && (*final(self)).buffered() == b@.len(),
            r is Err ==> (*final(self)).remaining() == (*old(self)).remaining(),
            (*old(self)).reliable() ==> r is Ok;
    fn consume(&mut self, amt: usize)
        // only what fill_buf exposed may be consumed
        requires amt <= (*old(self)).buffered(),   // [IO.consume.buffered C13 C07]
        ensures
            (*final(self)).src_eq(&*old(self)),
            (*final(self)).reliable() == (*old(self)).reliable(),
            (*final(self)).greedy() == (*old(self)).greedy(),
            amt <= (*old(self)).remaining().len(),
            (*final(self)).remaining() == (*old(self)).remaining().skip(amt as int),
            (*final(self)).buffered() == (*old(self)).buffered() - amt;
}

pub open spec fn is_suffix(a: Seq<u8>, b: Seq<u8>) -> bool {
    a.len() <= b.len() && a == b.skip(b.len() - a.len())
}

/// `n` is `o` advanced by exactly `k` bytes (the one predicate used by every reader contract).
#[verifier::prophetic]
pub open spec fn advanced<R: std::io::Read>(o: &R, n: &R, k: int) -> bool {
    0 <= k <= o.remaining().len() && n.remaining() == o.remaining().skip(k) && n.src_eq(o)
        && n.reliable() == o.reliable()
}

// The two axioms about src_eq.  Sound because every ReadSpecImpl::src_eq in this file and in the
// overlay is a conjunction of equalities and of src_eq on the inner reader.


// ---- byteorder shims (R10) -----------------------------------------------------------------
pub mod shim {
    use vstd::prelude::*;
    use crate::{ReadSpec, WriteSpec, BufReadSpec};
    use crate::vspec::*;

    pub trait ReadBytesShim: std::io::Read + Sized {
        #[verifier::external_body]
        fn read_u8(&mut self) -> (r: std::io::Result<u8>)
            ensures
                (*final(self)).reliable() == (*old(self)).reliable(),
                (*final(self)).greedy() == (*old(self)).greedy(),
                r matches Ok(b) ==> (*old(self)).remaining().len() >= 1
                    && b == (*old(self)).remaining()[0] && crate::advanced(&*old(self), &*final(self), 1),
                r is Err ==> (*final(self)).src_eq(&*old(self))
                    && crate::is_suffix((*final(self)).remaining(), (*old(self)).remaining()),
                (*old(self)).remaining().len() == 0 ==> r is Err && crate::advanced(&*old(self), &*final(self), 0),
                (*old(self)).reliable() && (*old(self)).remaining().len() >= 1 ==> r is Ok,
        { unimplemented!() }

        #[verifier::external_body]
        fn read_u16_be(&mut self) -> (r: std::io::Result<u16>)
            ensures
                (*final(self)).reliable() == (*old(self)).reliable(),
                (*final(self)).greedy() == (*old(self)).greedy(),
                r matches Ok(v) ==> (*old(self)).remaining().len() >= 2
                    && v == be16((*old(self)).remaining()) && crate::advanced(&*old(self), &*final(self), 2),
                r is Err ==> (*final(self)).src_eq(&*old(self))
                    && crate::is_suffix((*final(self)).remaining(), (*old(self)).remaining()),
                (*old(self)).remaining().len() < 2 ==> r is Err,
                (*old(self)).reliable() && (*old(self)).remaining().len() >= 2 ==> r is Ok,
        { unimplemented!() }

        #[verifier::external_body]
        fn read_u32_be(&mut self) -> (r: std::io::Result<u32>)
            ensures
                (*final(self)).reliable() == (*old(self)).reliable(),
                (*final(self)).greedy() == (*old(self)).greedy(),
                r matches Ok(v) ==> (*old(self)).remaining().len() >= 4
                    && v == be32((*old(self)).remaining()) && crate::advanced(&*old(self), &*final(self), 4),
                r is Err ==> (*final(self)).src_eq(&*old(self))
                    && crate::is_suffix((*final(self)).remaining(), (*old(self)).remaining()),
                (*old(self)).remaining().len() < 4 ==> r is Err,
                (*old(self)).reliable() && (*old(self)).remaining().len() >= 4 ==> r is Ok,
        { unimplemented!() }

        #[verifier::external_body]
        fn read_u32_le(&mut self) -> (r: std::io::Result<u32>)
            ensures
                (*final(self)).reliable() == (*old(self)).reliable(),
                (*final(self)).greedy() == (*old(self)).greedy(),
                r matches Ok(v) ==> (*old(self)).remaining().len() >= 4
                    && v == le32((*old(self)).remaining()) && crate::advanced(&*old(self), &*final(self), 4),
                r is Err ==> (*final(self)).src_eq(&*old(self))
                    && crate::is_suffix((*final(self)).remaining(), (*old(self)).remaining()),
                (*old(self)).remaining().len() < 4 ==> r is Err,
                (*old(self)).reliable() && (*old(self)).remaining().len() >= 4 ==> r is Ok,
        { unimplemented!() }

        #[verifier::external_body]
        fn read_u64_le(&mut self) -> (r: std::io::Result<u64>)
            ensures
                (*final(self)).reliable() == (*old(self)).reliable(),
                (*final(self)).greedy() == (*old(self)).greedy(),
                r matches Ok(v) ==> (*old(self)).remaining().len() >= 8
                    && v == le64((*old(self)).remaining()) && crate::advanced(&*old(self), &*final(self), 8),
                r is Err ==> (*final(self)).src_eq(&*old(self))
                    && crate::is_suffix((*final(self)).remaining(), (*old(self)).remaining()),
                (*old(self)).remaining().len() < 8 ==> r is Err,
                (*old(self)).reliable() && (*old(self)).remaining().len() >= 8 ==> r is Ok,
        { unimplemented!() }
    }
    impl<R: std::io::Read> ReadBytesShim for R {}

    pub trait WriteBytesShim: std::io::Write + Sized {
        #[verifier::external_body]
        fn write_u8(&mut self, v: u8) -> (r: std::io::Result<()>)
            ensures
                (*final(self)).snk_eq(&*old(self)),
                (*final(self)).infallible() == (*old(self)).infallible(),
                r is Ok ==> (*final(self)).written() == (*old(self)).written() + seq![v],
                r is Err ==> (*old(self)).written().is_prefix_of((*final(self)).written())
                    && (*final(self)).written().is_prefix_of((*old(self)).written() + seq![v]),
                (*old(self)).infallible() ==> r is Ok,
        { unimplemented!() }
        #[verifier::external_body]
        fn write_u16_be(&mut self, v: u16) -> (r: std::io::Result<()>)
            ensures
                (*final(self)).snk_eq(&*old(self)),
                (*final(self)).infallible() == (*old(self)).infallible(),
                r is Ok ==> (*final(self)).written() == (*old(self)).written() + enc_be16(v),
                r is Err ==> (*old(self)).written().is_prefix_of((*final(self)).written())
                    && (*final(self)).written().is_prefix_of((*old(self)).written() + enc_be16(v)),
                (*old(self)).infallible() ==> r is Ok,
        { unimplemented!() }
        #[verifier::external_body]
        fn write_u32_be(&mut self, v: u32) -> (r: std::io::Result<()>)
            ensures
                (*final(self)).snk_eq(&*old(self)),
                (*final(self)).infallible() == (*old(self)).infallible(),
                r is Ok ==> (*final(self)).written() == (*old(self)).written() + enc_be32(v),
                r is Err ==> (*old(self)).written().is_prefix_of((*final(self)).written())
                    && (*final(self)).written().is_prefix_of((*old(self)).written() + enc_be32(v)),
                (*old(self)).infallible() ==> r is Ok,
        { unimplemented!() }
        #[verifier::external_body]
        fn write_u32_le(&mut self, v: u32) -> (r: std::io::Result<()>)
            ensures
                (*final(self)).snk_eq(&*old(self)),
                (*final(self)).infallible() == (*old(self)).infallible(),
                r is Ok ==> (*final(self)).written() == (*old(self)).written() + enc_le32(v),
                r is Err ==> (*old(self)).written().is_prefix_of((*final(self)).written())
                    && (*final(self)).written().is_prefix_of((*old(self)).written() + enc_le32(v)),
                (*old(self)).infallible() ==> r is Ok,
        { unimplemented!() }
        #[verifier::external_body]
        fn write_u64_le(&mut self, v: u64) -> (r: std::io::Result<()>)
            ensures
                (*final(self)).snk_eq(&*old(self)),
                (*final(self)).infallible() == (*old(self)).infallible(),
                r is Ok ==> (*final(self)).written() == (*old(self)).written() + enc_le64(v),
                r is Err ==> (*old(self)).written().is_prefix_of((*final(self)).written())
                    && (*final(self)).written().is_prefix_of((*old(self)).written() + enc_le64(v)),
                (*old(self)).infallible() ==> r is Ok,
        { unimplemented!() }
    }
    impl<W: std::io::Write> WriteBytesShim for W {}

}

// ---- crc shim (R11): CRCs are uninterpreted functions of the byte sequence -----------------
pub mod crc {
    use vstd::prelude::*;
    pub trait Width: Sized {}
    impl Width for u32 {}
    impl Width for u64 {}
    #[verifier::external_body]
    #[verifier::reject_recursive_types(W)]
    pub struct Algorithm<W: Width> { pub w: core::marker::PhantomData<W> }
    #[verifier::external_body]
    #[verifier::reject_recursive_types(W)]
    pub struct Crc<W: Width> { pub w: core::marker::PhantomData<W> }
    #[verifier::external_body]
    #[verifier::accept_recursive_types(W)]
    pub struct Digest<'a, W: Width> { w: core::marker::PhantomData<&'a W> }
    pub uninterp spec fn crc32_of(s: Seq<u8>) -> u32;
    pub uninterp spec fn crc64_of(s: Seq<u8>) -> u64;
    impl Crc<u32> {
        #[verifier::external_body]
        pub const fn new(algorithm: &'static Algorithm<u32>) -> Self { Crc { w: core::marker::PhantomData } }
        #[verifier::external_body]
        pub fn checksum(&self, bytes: &[u8]) -> (r: u32) ensures r == crc32_of(bytes@) { unimplemented!() }
        #[verifier::external_body]
        pub fn digest(&self) -> (r: Digest<'_, u32>) ensures r.fed() == Seq::<u8>::empty() { unimplemented!() }
    }
    impl Crc<u64> {
        #[verifier::external_body]
        pub const fn new(algorithm: &'static Algorithm<u64>) -> Self { Crc { w: core::marker::PhantomData } }
        #[verifier::external_body]
        pub fn checksum(&self, bytes: &[u8]) -> (r: u64) ensures r == crc64_of(bytes@) { unimplemented!() }
    }
    impl<'a, W: Width> Digest<'a, W> {
        pub uninterp spec fn fed(&self) -> Seq<u8>;
    }
    impl<'a> Digest<'a, u32> {
        #[verifier::external_body]
        pub fn update(&mut self, bytes: &[u8]) ensures final(self).fed() == old(self).fed() + bytes@ { unimplemented!() }
        #[verifier::external_body]
        pub fn finalize(self) -> (r: u32) ensures r == crc32_of(self.fed()) { unimplemented!() }
    }
    #[verifier::external_body]
    pub const CRC_32_ISO_HDLC: Algorithm<u32> = Algorithm { w: core::marker::PhantomData };
    #[verifier::external_body]
    pub const CRC_64_XZ: Algorithm<u64> = Algorithm { w: core::marker::PhantomData };
}

// ---- std::io::Cursor -----------------------------------------------------------------------
#[verifier::external_type_specification]
#[verifier::external_body]
#[verifier::reject_recursive_types(T)]
pub struct ExCursor<T>(std::io::Cursor<T>);

pub uninterp spec fn cursor_pos<T>(c: &std::io::Cursor<T>) -> u64;
pub uninterp spec fn cursor_inner<T>(c: &std::io::Cursor<T>) -> T;

pub assume_specification<T> [std::io::Cursor::<T>::new] (inner: T) -> (r: std::io::Cursor<T>)
    ensures cursor_pos(&r) == 0, cursor_inner(&r) == inner;
pub assume_specification<T> [std::io::Cursor::<T>::position] (c: &std::io::Cursor<T>) -> (r: u64)
    ensures r == cursor_pos(c);
pub assume_specification<T> [std::io::Cursor::<T>::set_position] (c: &mut std::io::Cursor<T>, pos: u64)
    ensures cursor_pos(final(c)) == pos, cursor_inner(final(c)) == cursor_inner(old(c));
pub assume_specification<T> [std::io::Cursor::<T>::get_ref] (c: &std::io::Cursor<T>) -> (r: &T)
    ensures *r == cursor_inner(c);
pub assume_specification<T> [std::io::Cursor::<T>::get_mut] (c: &mut std::io::Cursor<T>) -> (r: &mut T)
    ensures *r == cursor_inner(old(c)), cursor_inner(final(c)) == *final(r), cursor_pos(final(c)) == cursor_pos(old(c));

// ---- std containers ------------------------------------------------------------------------
pub assume_specification<T, A: core::alloc::Allocator> [Vec::<T, A>::into_boxed_slice] (v: Vec<T, A>) -> (r: Box<[T], A>)
    ensures r@ == v@;
pub assume_specification<T: Clone> [<[T]>::fill] (s: &mut [T], v: T)
    ensures final(s)@.len() == old(s)@.len(), forall|i: int| 0 <= i < final(s)@.len() ==> final(s)@[i] == v;

/// stand-in for u16::to_be_bytes (its std signature uses a const expression Verus cannot name; R10)
#[verifier::external_body]
pub fn u16_to_be_bytes(x: u16) -> (r: [u8; 2])
    ensures r@[0] == (x / 256) as u8, r@[1] == (x % 256) as u8
{ x.to_be_bytes() }

// common Option combinators without a vstd specification (widen the accepted subset)
pub assume_specification<T, U, F: FnOnce(T) -> U> [Option::<T>::map_or] (o: Option<T>, default: U, f: F) -> (r: U)
    ensures match o { Some(x) => f.ensures((x,), r), None => r == default };
pub assume_specification<T, E, U, F: FnOnce(T) -> U> [Result::<T, E>::map_or] (o: Result<T, E>, default: U, f: F) -> (r: U)
    ensures match o { Ok(x) => f.ensures((x,), r), Err(_) => r == default };
pub assume_specification<T, E> [Result::<T, E>::unwrap_or] (o: Result<T, E>, default: T) -> (r: T)
    ensures r == (match o { Ok(x) => x, Err(_) => default });
pub assume_specification<T, E, U, F: FnOnce(T) -> Result<U, E>> [Result::<T, E>::and_then] (o: Result<T, E>, f: F) -> (r: Result<U, E>)
    ensures match o { Ok(x) => f.ensures((x,), r), Err(e) => r == Err::<U, E>(e) };
pub assume_specification<T> [Option::<Option<T>>::flatten] (o: Option<Option<T>>) -> (r: Option<T>)
    ensures r == (match o { Some(x) => x, None => None });

pub uninterp spec fn tz(x: usize) -> u32;
pub assume_specification [usize::trailing_zeros] (x: usize) -> (r: u32)
    ensures r == tz(x), r <= 64;
/// trailing_zeros(2^k) == k  (std semantics of usize::trailing_zeros)
#[verifier::external_body]
pub proof fn axiom_tz_pow2(k: nat)
    requires k < 64,
    ensures tz(crate::vspec::pow2(k) as usize) == k,
{}

#[verifier::external_body]
pub fn fmt_stub() -> String { String::new() }
pub assume_specification<T> [std::option::Option::<T>::replace] (o: &mut std::option::Option<T>, v: T) -> (r: std::option::Option<T>)
    ensures r == *old(o), *final(o) == Some(v);
// R19: `a.checked_mul(b).unwrap_or_else(|| panic!(..))`: the precondition is exactly "the panic branch is dead"
#[verifier::external_body]
pub fn mul_or_panic(a: usize, b: usize) -> (r: usize)
    requires a * b <= usize::MAX,
    ensures r == a * b,
{ a.checked_mul(b).unwrap() }
// std::io::empty(): a reader that is always at its end
#[verifier::external_type_specification]
#[verifier::external_body]
pub struct ExIoEmpty(std::io::Empty);
pub assume_specification [std::io::empty] () -> (r: std::io::Empty);
impl ReadSpecImpl for std::io::Empty {
    open spec fn remaining(&self) -> Seq<u8> { Seq::<u8>::empty() }
    open spec fn reliable(&self) -> bool { true }
    open spec fn greedy(&self) -> bool { true }
    #[verifier::prophetic]
    open spec fn src_eq(&self, o: &Self) -> bool { true }
}
impl BufReadSpecImpl for std::io::Empty {
    open spec fn buffered(&self) -> nat { 0 }
}
// R16: io::Error::new(kind, msg) -> io_error_stub(): kind and message of an io::Error are not modelled
#[verifier::external_body]
pub fn io_error_stub() -> std::io::Error { std::io::Error::new(std::io::ErrorKind::Other, "") }

// ---- R20: allocation sites.  Every `vec![e; n]`, `Vec::with_capacity(n)`, `resize(n, ..)`, `reserve(n)` of the extracted
// code goes through one of these wrappers.  Their bodies are the original calls and are VERIFIED against vstd's own
// specifications; the only thing they add is the obligation `alloc_ok(n)`: an allocation is either bounded by a constant
// of the format (4 Mi elements: the largest probability table is 2^12 * 0x300 entries) or justified by data the decoder
// already holds (`axiom_alloc_held`, the one trusted statement: `held` is named by the contract author and must be a
// count of bytes actually consumed or produced).  C07: "never allocates memory out of proportion to the bytes it
// actually consumed and produced - a header announcing a huge dictionary or size costs nothing until data arrives".
pub mod mem {
    use vstd::prelude::*;
    pub open spec fn alloc_const_max() -> nat { 0x40_0000 }
    pub uninterp spec fn alloc_justified(n: nat) -> bool;
    pub open spec fn alloc_ok(n: nat) -> bool { n <= alloc_const_max() || alloc_justified(n) }
    #[verifier::external_body]
    pub proof fn axiom_alloc_held(n: nat, held: nat)
        requires n <= 2 * held + alloc_const_max()
        ensures alloc_justified(n)
    {}
    pub fn vec_filled<T: Clone>(elem: T, n: usize) -> (v: Vec<T>)
        requires alloc_ok(n as nat),                                           // [ALLOC.bounded C07]
        ensures v@.len() == n, forall|i: int| 0 <= i < n ==> vstd::pervasive::cloned(elem, #[trigger] v@[i]),
    { vec![elem; n] }
    pub fn vec_resize<T: Clone>(v: &mut Vec<T>, n: usize, value: T)
        requires alloc_ok(n as nat),                                           // [ALLOC.bounded C07]
        ensures final(v)@.len() == n,
            forall|i: int| 0 <= i < n && i < old(v)@.len() ==> final(v)@[i] == old(v)@[i],
            forall|i: int| old(v)@.len() <= i < n ==> vstd::pervasive::cloned(value, #[trigger] final(v)@[i]),
    { v.resize(n, value) }
    pub fn vec_with_capacity<T>(n: usize) -> (v: Vec<T>)
        requires alloc_ok(n as nat),                                           // [ALLOC.bounded C07]
        ensures v@.len() == 0,
    { Vec::with_capacity(n) }
    pub fn vec_reserve<T>(v: &mut Vec<T>, n: usize)
        requires alloc_ok(n as nat), old(v)@.len() + n <= isize::MAX,          // [ALLOC.bounded C07]
        ensures final(v)@ == old(v)@,
    { v.reserve(n) }
}

// ---- the frame-relation axioms (in their own module so that every module, including the crate root,
// can `broadcast use` them) ---------------------------------------------------------------------
pub mod ax {
    use vstd::prelude::*;
    use crate::{ReadSpec, WriteSpec};
    use vstd::std_specs::cmp::PartialEqSpec;
    /// a boxed slice has at most usize::MAX elements (vstd states this for `[T]` reached through a reference only)
    #[verifier::external_body]
    pub proof fn axiom_boxed_slice_len<T>(b: &Box<[T]>)
        ensures b@.len() <= usize::MAX
    {}
    /// `==` on byte slices compares contents (vstd leaves eq_spec of slices unspecified)
    #[verifier::external_body]
    pub broadcast proof fn axiom_slice_u8_eq(a: &[u8], b: &[u8])
        ensures #[trigger] a.eq_spec(b) == (a@ == b@)
    {}
    #[verifier::external_body]
    pub broadcast proof fn axiom_snk_eq_refl<W: std::io::Write>(w: &W)
        ensures #[trigger] w.snk_eq(w)
    {}
    #[verifier::external_body]
    pub broadcast proof fn axiom_snk_eq_trans<W: std::io::Write>(a: &W, b: &W, c: &W)
        requires #[trigger] a.snk_eq(b), #[trigger] b.snk_eq(c)
        ensures a.snk_eq(c)
    {}
    #[verifier::external_body]
    pub broadcast proof fn axiom_src_eq_refl<R: std::io::Read>(r: &R)
        ensures #[trigger] r.src_eq(r)
    {}
    #[verifier::external_body]
    pub broadcast proof fn axiom_src_eq_trans<R: std::io::Read>(a: &R, b: &R, c: &R)
        requires #[trigger] a.src_eq(b), #[trigger] b.src_eq(c)
        ensures a.src_eq(c)
    {}
}
