// =============================================================================================
// Format specification, part 4c: the relation the streaming decoder maintains with the one-shot
// spec decoder.  A decoder configuration (registers, model, window) b holding the not yet decoded
// bytes b.inp is ON THE PATH of configuration a that was given the bytes a.inp when, whatever bytes
// g follow, running the spec decoder from either gives the same verdict, output and final state:
//     forall g.  sp_run(a over a.inp + g) == sp_run(b over b.inp + g)
// (restricted to continuations g that start with `tail` when `strict` is false: used while a reader
// still holds bytes that the decoder has seen but not taken).
// =============================================================================================

pub open spec fn g_ok(strict: bool, tail: Seq<u8>, g: Seq<u8>) -> bool { strict || tail.is_prefix_of(g) }

#[verifier::opaque]
pub open spec fn path_eq(ra: Rc, ma: LzS, wa: Win, rb: Rc, mb: LzS, wb: Win, size: Option<u64>, strict: bool, tail: Seq<u8>) -> bool {
    forall|g: Seq<u8>| g_ok(strict, tail, g) ==>
        #[trigger] sp_run(rcw(ra, ra.inp + g), ma, wa, size) == sp_run(rcw(rb, rb.inp + g), mb, wb, size)
}

pub proof fn lemma_path_refl(r: Rc, m: LzS, w: Win, size: Option<u64>, strict: bool, tail: Seq<u8>)
    ensures path_eq(r, m, w, r, m, w, size, strict, tail),
{
    reveal(path_eq);
}

pub proof fn lemma_path_trans(ra: Rc, ma: LzS, wa: Win, rb: Rc, mb: LzS, wb: Win, rc: Rc, mc: LzS, wc: Win,
                              size: Option<u64>, strict: bool, tail: Seq<u8>)
    requires path_eq(ra, ma, wa, rb, mb, wb, size, strict, tail), path_eq(rb, mb, wb, rc, mc, wc, size, strict, tail),
    ensures path_eq(ra, ma, wa, rc, mc, wc, size, strict, tail),
{
    reveal(path_eq);
    assert forall|g: Seq<u8>| g_ok(strict, tail, g) implies
        #[trigger] sp_run(rcw(ra, ra.inp + g), ma, wa, size) == sp_run(rcw(rc, rc.inp + g), mc, wc, size) by {
        assert(sp_run(rcw(ra, ra.inp + g), ma, wa, size) == sp_run(rcw(rb, rb.inp + g), mb, wb, size));
    }
}

/// fewer continuations: from strict to anything, or to a longer tail; an empty tail is as good as strict
pub proof fn lemma_path_weaken(ra: Rc, ma: LzS, wa: Win, rb: Rc, mb: LzS, wb: Win, size: Option<u64>,
                               strict: bool, tail: Seq<u8>, strict2: bool, tail2: Seq<u8>)
    requires path_eq(ra, ma, wa, rb, mb, wb, size, strict, tail),
        strict || tail.len() == 0 || (!strict2 && tail.is_prefix_of(tail2)),
    ensures path_eq(ra, ma, wa, rb, mb, wb, size, strict2, tail2),
{
    reveal(path_eq);
    assert forall|g: Seq<u8>| g_ok(strict2, tail2, g) implies g_ok(strict, tail, g) by {
        if !strict && tail.len() > 0 {
            assert(tail.is_prefix_of(g)) by {
                assert(tail =~= tail2.take(tail.len() as int));
                assert(tail2 =~= g.take(tail2.len() as int));
                assert(tail =~= g.take(tail.len() as int));
            }
        } else if !strict {
            assert(tail =~= g.take(0));
        }
    }
}

/// both sides take the same bytes x (which the continuation was known to start with)
pub proof fn lemma_path_take(ra: Rc, ma: LzS, wa: Win, rb: Rc, mb: LzS, wb: Win, size: Option<u64>,
                             strict: bool, tail: Seq<u8>, x: Seq<u8>)
    requires path_eq(ra, ma, wa, rb, mb, wb, size, strict, tail), strict || x.is_prefix_of(tail),
    ensures path_eq(rcw(ra, ra.inp + x), ma, wa, rcw(rb, rb.inp + x), mb, wb, size, strict, if strict { tail } else { tail.skip(x.len() as int) }),
{
    reveal(path_eq);
    let tail2 = if strict { tail } else { tail.skip(x.len() as int) };
    assert forall|g: Seq<u8>| g_ok(strict, tail2, g) implies
        #[trigger] sp_run(rcw(rcw(ra, ra.inp + x), (ra.inp + x) + g), ma, wa, size)
            == sp_run(rcw(rcw(rb, rb.inp + x), (rb.inp + x) + g), mb, wb, size) by {
        let g0 = x + g;
        assert((ra.inp + x) + g =~= ra.inp + g0);
        assert((rb.inp + x) + g =~= rb.inp + g0);
        if !strict {
            assert(tail.is_prefix_of(g0)) by {
                assert(x =~= tail.take(x.len() as int));
                assert(tail2 =~= g.take(tail2.len() as int));
                assert(tail =~= x + tail2);
                assert(g0.take(tail.len() as int) =~= x + g.take(tail2.len() as int));
            }
        }
        assert(g_ok(strict, tail, g0));
        assert(sp_run(rcw(ra, ra.inp + g0), ma, wa, size) == sp_run(rcw(rb, rb.inp + g0), mb, wb, size));
    }
}

/// the converse of take: facts about continuations of A + x, B + x are facts about continuations of A, B that start with x
pub proof fn lemma_path_untake(ra: Rc, ma: LzS, wa: Win, rb: Rc, mb: LzS, wb: Win, size: Option<u64>, x: Seq<u8>, a: Seq<u8>, b: Seq<u8>)
    requires path_eq(rcw(ra, a + x), ma, wa, rcw(rb, b + x), mb, wb, size, true, Seq::<u8>::empty()),
    ensures path_eq(rcw(ra, a), ma, wa, rcw(rb, b), mb, wb, size, false, x),
{
    reveal(path_eq);
    assert forall|g: Seq<u8>| g_ok(false, x, g) implies
        #[trigger] sp_run(rcw(rcw(ra, a), a + g), ma, wa, size) == sp_run(rcw(rcw(rb, b), b + g), mb, wb, size) by {
        let g1 = g.skip(x.len() as int);
        assert(x =~= g.take(x.len() as int));
        assert(g =~= x + g1);
        assert(a + g =~= (a + x) + g1);
        assert(b + g =~= (b + x) + g1);
        assert(g_ok(true, Seq::<u8>::empty(), g1));
        assert(sp_run(rcw(rcw(ra, a + x), (a + x) + g1), ma, wa, size) == sp_run(rcw(rcw(rb, b + x), (b + x) + g1), mb, wb, size));
    }
}

/// After the end marker (rep0 == 0xFFFFFFFF, state after a match, Code == 0) no further symbol can be
/// decoded: Code == 0 selects a literal, the literal is a matched one, and its match byte lies at
/// distance 2^32, beyond every dictionary.
pub proof fn lemma_after_marker(rc: Rc, m: LzS, w: Win)
    requires rc_ok(rc), lzs_ok(m), rc.code == 0, m.rep[0] == 0xFFFF_FFFF, m.state >= 7, w.maxd <= 0xFFFF_FFFF,
    ensures sp_step(rc, m, w, true) is None,
{
    reveal(sp_literal);
    lemma_pow2(4); lemma_pow2_mono(m.pb, 4); lemma_pow2(m.pb);
    let pos_state: nat = w.hist % pow2(m.pb);
    assert(pos_state < 16) by (nonlinear_arith) requires pos_state == w.hist % pow2(m.pb), 1 <= pow2(m.pb) <= 16;
    let i_match: nat = m.state * 16 + pos_state;
    let prob = m.is_match[i_match as int];
    assert(prob_ok(prob));
    lemma_bound(rc.range, prob);
}

/// the verdict at a configuration where the spec stops (or not) does not look at the model
pub open spec fn size_open(size: Option<u64>, w: Win) -> bool {
    match size { Some(n) => w.hist < n, None => true }
}

/// One real symbol step.  The step ran on the input X = rc.inp and consumed its first j bytes.  Then,
/// for every continuation g (of the bytes consumed), decoding from before the step over X[..j] + g is
/// decoding from after the step over g.  When nothing at all was consumed, Code == 0 and no size is in
/// effect, only continuations that start with the rest of X are covered (the format's "Code == 0 and no
/// input left" acceptance, finding F-C08, makes the empty continuation differ).
pub proof fn lemma_path_step(rc: Rc, m: LzS, w: Win, size: Option<u64>)
    requires run_pre(rc, m, w), sp_step(rc, m, w, true) is Some, size_open(size, w), w.maxd <= 0xFFFF_FFFF,
        size is None ==> rc.code != 0 || rc.inp.len() > 0,
    ensures ({
        let res = sp_step(rc, m, w, true).unwrap();
        let j = used(rc, res.1);
        &&& rc_adv(rc, res.1) && run_pre(res.1, res.2, res.3) && res.3.maxd == w.maxd && 0 <= j <= rc.inp.len()
        &&& path_eq(rcw(rc, rc.inp.take(j)), m, w, rcw(res.1, Seq::<u8>::empty()), res.2, res.3, size,
                    size is Some || j > 0 || rc.code != 0, rc.inp.skip(j))
    }),
{
    let res = sp_step(rc, m, w, true).unwrap();
    let j = used(rc, res.1);
    lemma_step_pre(rc, m, w);
    lemma_repl_step(rc, m, w, true, rc.inp);
    let strict = size is Some || j > 0 || rc.code != 0;
    let tail = rc.inp.skip(j);
    let a = rcw(rc, rc.inp.take(j));
    let b = rcw(res.1, Seq::<u8>::empty());
    lemma_step_marker_shape(rc, m, w);
    assert forall|g: Seq<u8>| g_ok(strict, tail, g) implies
        #[trigger] sp_run(rcw(a, a.inp + g), m, w, size) == sp_run(rcw(b, b.inp + g), res.2, res.3, size) by {
        let inp2 = rc.inp.take(j) + g;
        lemma_repl_step(rc, m, w, true, inp2);
        assert(agree(rc.inp, inp2, j));
        assert(inp2.skip(j) =~= g);
        assert(b.inp + g =~= g);
        assert(rcw(a, a.inp + g) == rcw(rc, inp2));
        assert(rcw(b, b.inp + g) == rcw(res.1, g));
        let c2 = rcw(rc, inp2);
        assert(run_pre(c2, m, w));
        if !strict {
            assert(tail =~= g.take(tail.len() as int));
            assert(inp2.len() >= rc.inp.len());
        }
        assert(size is None ==> !markerless_stop(c2));
        assert(sp_step(c2, m, w, true) == step_over(res, rc, inp2));
        if res.0 is Continue {
            assert(sp_run(c2, m, w, size) == sp_run(rcw(res.1, g), res.2, res.3, size));
        } else {
            // end marker: accepted iff nothing follows; afterwards nothing can be decoded
            let c3 = rcw(res.1, g);
            assert(run_pre(c3, res.2, res.3));
            lemma_after_marker(c3, res.2, res.3);
            if g.len() == 0 {
                assert(inp2.len() == j);
                assert(g =~= res.1.inp);
                assert(c3 == res.1);
            }
        }
    }
    reveal(path_eq);
}

/// shape of the result of an end-marker step
pub proof fn lemma_step_marker_shape(rc: Rc, m: LzS, w: Win)
    requires run_pre(rc, m, w),
    ensures match sp_step(rc, m, w, true) {
        Some((StepStatus::Finished, r2, m2, w2)) => r2.code == 0 && r2.inp.len() == 0 && m2.rep[0] == 0xFFFF_FFFF && m2.state >= 7 && w2 == w,
        _ => true,
    },
{
    reveal(sp_step_match);
    let pos_state: nat = w.hist % pow2(m.pb);
    let i_match: nat = m.state * 16 + pos_state;
    lemma_repl_step(rc, m, w, true, rc.inp);
    match sp_bit(rc, m.is_match[i_match as int], true) {
        None => {},
        Some((b_match, r1, p1)) => {
            let m1 = LzS { is_match: m.is_match.update(i_match as int, p1), ..m };
            if b_match {
                match sp_bit(r1, m1.is_rep[m.state as int], true) {
                    None => {},
                    Some((b_rep, r2, p2)) => {
                        let m2 = LzS { is_rep: m1.is_rep.update(m.state as int, p2), ..m1 };
                        if b_rep {
                            lemma_repl_step_rep(r2, m2, w, pos_state, true, r2.inp);
                        }
                    }
                }
            }
        }
    }
}

/// what the one-shot run says at the configuration where the streaming decoder stands when it is asked
/// to finish (spec counterpart of the final Finish-mode pass): by path_eq with the empty continuation
pub proof fn lemma_path_final(ra: Rc, ma: LzS, wa: Win, rb: Rc, mb: LzS, wb: Win, size: Option<u64>, strict: bool, tail: Seq<u8>, g: Seq<u8>)
    requires path_eq(ra, ma, wa, rb, mb, wb, size, strict, tail), g_ok(strict, tail, g),
    ensures sp_run(rcw(ra, ra.inp + g), ma, wa, size) == sp_run(rcw(rb, rb.inp + g), mb, wb, size),
{
    reveal(path_eq);
}
