// =============================================================================================
// Format specification, part 4e: ONE SYMBOL NEEDS AT MOST 20 INPUT BYTES.
// (lzma-rs: MAX_REQUIRED_INPUT = 20, the look-ahead at which the streaming decoder stops dry-running.)
// Potential argument on Range.  An adaptive bit with probability in [31, 2017] keeps at least
// 31 * 8191 / 2^24 of Range (floor effects included, Range >= 2^24), a direct bit at least (2^24 - 1) / 2^25,
// a normalisation multiplies Range by 256 and consumes one byte.  With a adaptive and d direct bits from a
// normalised coder that consumed k bytes:
//       Range' * (2^24)^a * (2^25)^d  >=  Range * (31*8191)^a * (2^24 - 1)^d * 256^k.
// Range' < 2^32 and Range >= 2^24 then bound k.  A symbol has at most 22 adaptive bits (match flag, rep flag,
// 10 length bits, 6 slot bits, 4 align bits) and 26 direct bits, which gives k <= 20 (k = 21 would need
// 2^8 * (2^24/253921)^22 * (2^25/(2^24-1))^26 >= 256^21, false by about one bit).
// =============================================================================================

pub open spec fn pw(b: nat, e: nat) -> nat decreases e { if e == 0 { 1 } else { b * pw(b, (e - 1) as nat) } }

pub open spec fn bud_h(a: nat, d: nat) -> nat { pw(0x100_0000, a) * pw(0x200_0000, d) }
pub open spec fn bud_g(a: nat, d: nat, k: nat) -> nat { pw(253921, a) * pw(0xFF_FFFF, d) * pw(256, k) }

pub proof fn lemma_pw_add(b: nat, x: nat, y: nat)
    ensures pw(b, x + y) == pw(b, x) * pw(b, y),
    decreases x
{
    if x == 0 {
        assert(pw(b, 0) == 1);
        assert(pw(b, 0 + y) == 1 * pw(b, y));
    } else {
        lemma_pw_add(b, (x - 1) as nat, y);
        assert(((x + y) - 1) as nat == ((x - 1) as nat) + y);
        assert(pw(b, x + y) == b * pw(b, ((x + y) - 1) as nat));
        assert(pw(b, x) == b * pw(b, (x - 1) as nat));
        assert(b * (pw(b, (x - 1) as nat) * pw(b, y)) == (b * pw(b, (x - 1) as nat)) * pw(b, y)) by (nonlinear_arith);
    }
}
pub proof fn lemma_pw_small(b: nat)
    ensures pw(b, 0) == 1, pw(b, 1) == b,
{
    reveal_with_fuel(pw, 3);
    assert(pw(b, 0) == 1);
    assert(pw(b, 1) == b * pw(b, (1 - 1) as nat));
    assert(b * 1 == b) by (nonlinear_arith);
}
pub proof fn lemma_pw_pos(b: nat, e: nat)
    requires b >= 1,
    ensures pw(b, e) >= 1,
    decreases e
{
    if e > 0 { lemma_pw_pos(b, (e - 1) as nat); assert(b * pw(b, (e - 1) as nat) >= 1) by (nonlinear_arith) requires b >= 1, pw(b, (e - 1) as nat) >= 1; }
}
pub proof fn lemma_pw_le(b: nat, c: nat, e: nat)
    requires b <= c,
    ensures pw(b, e) <= pw(c, e),
    decreases e
{
    if e > 0 {
        lemma_pw_le(b, c, (e - 1) as nat);
        assert(b * pw(b, (e - 1) as nat) <= c * pw(c, (e - 1) as nat)) by (nonlinear_arith)
            requires b <= c, pw(b, (e - 1) as nat) <= pw(c, (e - 1) as nat);
    }
}
pub proof fn lemma_pw_mono(b: nat, e1: nat, e2: nat)
    requires b >= 1, e1 <= e2,
    ensures pw(b, e1) <= pw(b, e2),
{
    lemma_pw_add(b, e1, (e2 - e1) as nat);
    lemma_pw_pos(b, (e2 - e1) as nat);
    lemma_pw_pos(b, e1);
    assert(pw(b, e1) * pw(b, (e2 - e1) as nat) >= pw(b, e1)) by (nonlinear_arith) requires pw(b, (e2 - e1) as nat) >= 1;
}

pub proof fn lemma_bud_split(a1: nat, d1: nat, k1: nat, a2: nat, d2: nat, k2: nat)
    ensures bud_h(a1 + a2, d1 + d2) == bud_h(a1, d1) * bud_h(a2, d2),
        bud_g(a1 + a2, d1 + d2, k1 + k2) == bud_g(a1, d1, k1) * bud_g(a2, d2, k2),
{
    lemma_pw_add(0x100_0000, a1, a2); lemma_pw_add(0x200_0000, d1, d2);
    lemma_pw_add(253921, a1, a2); lemma_pw_add(0xFF_FFFF, d1, d2); lemma_pw_add(256, k1, k2);
    let (p1, p2, q1, q2) = (pw(0x100_0000, a1), pw(0x100_0000, a2), pw(0x200_0000, d1), pw(0x200_0000, d2));
    assert((p1 * p2) * (q1 * q2) == (p1 * q1) * (p2 * q2)) by (nonlinear_arith);
    let (b1, b2, e1, e2, c1, c2) = (pw(253921, a1), pw(253921, a2), pw(0xFF_FFFF, d1), pw(0xFF_FFFF, d2), pw(256, k1), pw(256, k2));
    assert((b1 * b2) * (e1 * e2) * (c1 * c2) == (b1 * e1 * c1) * (b2 * e2 * c2)) by (nonlinear_arith);
}

/// the budget factors of zero / one bit
pub proof fn lemma_bud_small(k: nat)
    ensures bud_h(0, 0) == 1, bud_h(1, 0) == 0x100_0000, bud_h(0, 1) == 0x200_0000,
        bud_g(0, 0, k) == pw(256, k), bud_g(1, 0, k) == 253921 * pw(256, k), bud_g(0, 1, k) == 0xFF_FFFF * pw(256, k),
{
    lemma_pw_small(0x100_0000); lemma_pw_small(0x200_0000); lemma_pw_small(253921); lemma_pw_small(0xFF_FFFF);
    let c = pw(256, k);
    assert(1 * 1 == 1 && 0x100_0000 * 1 == 0x100_0000 && 1 * 0x200_0000 == 0x200_0000) by (nonlinear_arith);
    assert(1 * 1 * c == c) by (nonlinear_arith);
    assert(253921 * 1 * c == 253921 * c) by (nonlinear_arith);
    assert(1 * 0xFF_FFFF * c == 0xFF_FFFF * c) by (nonlinear_arith);
}

/// from rc to r2: at most `a` adaptive and `d` direct bits were decoded
#[verifier::opaque]
pub open spec fn budget(rc: Rc, r2: Rc, a: nat, d: nat) -> bool {
    rc_adv(rc, r2) && (r2.range as nat) * bud_h(a, d) >= (rc.range as nat) * bud_g(a, d, used(rc, r2) as nat)
}

pub proof fn lemma_budget_refl(rc: Rc)
    ensures budget(rc, rc, 0, 0),
{
    reveal(budget);
    assert(rc.inp.skip(0) =~= rc.inp);
    lemma_pw_small(0x100_0000); lemma_pw_small(0x200_0000); lemma_pw_small(253921); lemma_pw_small(0xFF_FFFF); lemma_pw_small(256);
    assert(bud_h(0, 0) == 1 && bud_g(0, 0, 0) == 1);
}

pub proof fn lemma_budget_trans(rc: Rc, r1: Rc, r2: Rc, a1: nat, d1: nat, a2: nat, d2: nat)
    requires budget(rc, r1, a1, d1), budget(r1, r2, a2, d2),
    ensures budget(rc, r2, a1 + a2, d1 + d2),
{
    reveal(budget);
    lemma_rc_adv_trans(rc, r1, r2);
    let k1 = used(rc, r1) as nat; let k2 = used(r1, r2) as nat;
    lemma_bud_split(a1, d1, k1, a2, d2, k2);
    let (x, y, z) = (r2.range as nat, r1.range as nat, rc.range as nat);
    let (h1, h2, g1, g2) = (bud_h(a1, d1), bud_h(a2, d2), bud_g(a1, d1, k1), bud_g(a2, d2, k2));
    assert(x * h2 * h1 >= y * g2 * h1) by (nonlinear_arith) requires x * h2 >= y * g2;
    assert(y * g2 * h1 == g2 * (y * h1)) by (nonlinear_arith);
    assert(g2 * (y * h1) >= g2 * (z * g1)) by (nonlinear_arith) requires y * h1 >= z * g1;
    assert(x * (h1 * h2) == x * h2 * h1) by (nonlinear_arith);
    assert(g2 * (z * g1) == z * (g1 * g2)) by (nonlinear_arith);
    assert(used(rc, r2) == k1 + k2);
}

pub proof fn lemma_budget_weaken(rc: Rc, r2: Rc, a: nat, d: nat, a2: nat, d2: nat)
    requires budget(rc, r2, a, d), a <= a2, d <= d2,
    ensures budget(rc, r2, a2, d2),
{
    reveal(budget);
    let k = used(rc, r2) as nat;
    let da = (a2 - a) as nat; let dd = (d2 - d) as nat;
    lemma_bud_split(a, d, k, da, dd, 0);
    lemma_pw_le(253921, 0x100_0000, da); lemma_pw_le(0xFF_FFFF, 0x200_0000, dd);
    assert(pw(256, 0) == 1);
    let (x, z, h, g) = (r2.range as nat, rc.range as nat, bud_h(a, d), bud_g(a, d, k));
    let (hp, gp) = (bud_h(da, dd), bud_g(da, dd, 0));
    assert(gp <= hp) by (nonlinear_arith)
        requires pw(253921, da) <= pw(0x100_0000, da), pw(0xFF_FFFF, dd) <= pw(0x200_0000, dd),
            gp == pw(253921, da) * pw(0xFF_FFFF, dd) * 1, hp == pw(0x100_0000, da) * pw(0x200_0000, dd);
    assert(x * (h * hp) >= z * (g * gp)) by (nonlinear_arith) requires x * h >= z * g, gp <= hp;
    assert(k + 0 == k);
}

/// Normalize keeps the budget: one byte for a factor 256
pub proof fn lemma_budget_normalize(rc: Rc)
    requires rc.range >= 0x1_0000,
    ensures match sp_normalize(rc) { Some(r2) => budget(rc, r2, 0, 0), None => true },
{
    reveal(budget);
    lemma_normalize(rc);
    lemma_pw_small(0x100_0000); lemma_pw_small(0x200_0000); lemma_pw_small(253921); lemma_pw_small(0xFF_FFFF); lemma_pw_small(256);
    assert(bud_h(0, 0) == 1 && bud_g(0, 0, 0) == 1 && bud_g(0, 0, 1) == 256);
    match sp_normalize(rc) {
        None => {},
        Some(r2) => {
            if rc.range < K_TOP {
                let r = rc.range;
                assert((r << 8) == r * 256) by (bit_vector) requires r < 0x100_0000u32;
                assert(used(rc, r2) == 1);
                assert(pw(256, 1) == 256);
            } else {
                assert(used(rc, r2) == 0);
            }
        }
    }
}

/// one adaptive bit
pub proof fn lemma_budget_bit(rc: Rc, prob: u16, upd: bool)
    requires rc_ok(rc), prob_ok(prob),
    ensures match sp_bit(rc, prob, upd) { Some((b, r2, p2)) => budget(rc, r2, 1, 0), None => true },
{
    lemma_bound(rc.range, prob);
    lemma_sp_bit(rc, prob, upd);
    let range = rc.range;
    let q: u32 = range >> 11;
    let bound: u32 = (q * (prob as u32)) as u32;
    assert(q * 2048 <= range && range < q * 2048 + 2048 && q >= 0x2000) by (bit_vector) requires q == range >> 11, range >= 0x100_0000u32;
    // whichever branch: the new range (before normalisation) is at least q * 31
    let mid: Rc = if rc.code < bound { Rc { range: bound, code: rc.code, inp: rc.inp } }
                  else { Rc { range: (range - bound) as u32, code: (rc.code - bound) as u32, inp: rc.inp } };
    assert(mid.range >= q * 31) by (nonlinear_arith)
        requires 31 <= prob <= 2017, bound == q * prob, q * 2048 <= range, mid.range == bound || mid.range == range - bound;
    lemma_budget_normalize(mid);
    match sp_normalize(mid) {
        None => {},
        Some(r2) => {
            reveal(budget);
            let k = used(mid, r2) as nat;
            lemma_bud_small(k);
            // mid.range * 2^24 >= range * 31 * 8191
            assert((mid.range as nat) * 0x100_0000 >= (range as nat) * 253921) by (nonlinear_arith)
                requires mid.range >= q * 31, q * 2048 + 2048 > range, range >= 0x100_0000, q >= 0x2000;
            let (x, m, z, c) = (r2.range as nat, mid.range as nat, range as nat, pw(256, k));
            assert(x * 0x100_0000 >= z * (253921 * c)) by (nonlinear_arith)
                requires x * 1 >= m * c, m * 0x100_0000 >= z * 253921;
            assert(used(rc, r2) == used(mid, r2));
            assert(rc_adv(rc, r2)) by { assert(r2.inp =~= rc.inp.skip(rc.inp.len() - r2.inp.len())); }
        }
    }
}

/// one direct bit
pub proof fn lemma_budget_direct_bit(rc: Rc)
    requires rc_ok(rc),
    ensures match sp_direct_bit(rc) { Some((b, r2)) => budget(rc, r2, 0, 1), None => true },
{
    lemma_sp_direct_bit(rc);
    let range = rc.range;
    let r: u32 = range >> 1;
    assert(2 * r + 1 >= range && r >= 0x80_0000) by (bit_vector) requires r == range >> 1, range >= 0x100_0000u32;
    let mid: Rc = if rc.code >= r { Rc { range: r, code: (rc.code - r) as u32, inp: rc.inp } } else { Rc { range: r, code: rc.code, inp: rc.inp } };
    lemma_budget_normalize(mid);
    match sp_normalize(mid) {
        None => {},
        Some(r2) => {
            reveal(budget);
            let k = used(mid, r2) as nat;
            lemma_bud_small(k);
            assert((r as nat) * 0x200_0000 >= (range as nat) * 0xFF_FFFF) by (nonlinear_arith)
                requires 2 * r + 1 >= range, range >= 0x100_0000;
            let (x, m, z, c) = (r2.range as nat, r as nat, range as nat, pw(256, k));
            assert(x * 0x200_0000 >= z * (0xFF_FFFF * c)) by (nonlinear_arith)
                requires x * 1 >= m * c, m * 0x200_0000 >= z * 0xFF_FFFF;
            assert(used(rc, r2) == used(mid, r2));
            assert(rc_adv(rc, r2)) by { assert(r2.inp =~= rc.inp.skip(rc.inp.len() - r2.inp.len())); }
        }
    }
}

pub proof fn lemma_budget_direct_bits(rc: Rc, n: nat, i: nat, acc: u32)
    requires rc_ok(rc), i <= n,
    ensures match sp_direct_bits(rc, n, i, acc) { Some((v, r2)) => budget(rc, r2, 0, (n - i) as nat) && rc_ok(r2), None => true },
    decreases n - i
{
    if i >= n { lemma_budget_refl(rc); }
    else {
        lemma_budget_direct_bit(rc);
        lemma_sp_direct_bit(rc);
        match sp_direct_bit(rc) {
            None => {},
            Some((b, r1)) => {
                let acc1 = ((acc << 1) + (if b { 1u32 } else { 0u32 })) as u32;
                lemma_budget_direct_bits(r1, n, i + 1, acc1);
                match sp_direct_bits(r1, n, i + 1, acc1) {
                    None => {},
                    Some((v, r2)) => { lemma_budget_trans(rc, r1, r2, 0, 1, 0, (n - i - 1) as nat); }
                }
            }
        }
    }
}

pub proof fn lemma_budget_tree(rc: Rc, probs: Seq<u16>, n: nat, i: nat, m: nat, upd: bool)
    requires rc_ok(rc), probs_ok(probs), i <= n, pow2(i) <= m < 2 * pow2(i), probs.len() >= pow2(n),
    ensures match sp_tree(rc, probs, n, i, m, upd) { Some((m2, r2, p2)) => budget(rc, r2, (n - i) as nat, 0), None => true },
    decreases n - i
{
    if i >= n { lemma_budget_refl(rc); }
    else {
        lemma_pow2(i); lemma_pow2_mono(i + 1, n);
        lemma_budget_bit(rc, probs[m as int], upd);
        lemma_sp_bit(rc, probs[m as int], upd);
        match sp_bit(rc, probs[m as int], upd) {
            None => {},
            Some((b, r1, p1)) => {
                let probs1 = probs.update(m as int, p1);
                let m1 = 2 * m + (if b { 1nat } else { 0nat });
                lemma_budget_tree(r1, probs1, n, i + 1, m1, upd);
                match sp_tree(r1, probs1, n, i + 1, m1, upd) {
                    None => {},
                    Some((m2, r2, p2)) => { lemma_budget_trans(rc, r1, r2, 1, 0, (n - i - 1) as nat, 0); }
                }
            }
        }
    }
}

pub proof fn lemma_budget_rev_tree(rc: Rc, probs: Seq<u16>, off: nat, n: nat, i: nat, m: nat, sym: nat, upd: bool)
    requires rc_ok(rc), probs_ok(probs), i <= n, pow2(i) <= m < 2 * pow2(i), probs.len() >= off + pow2(n),
    ensures match sp_rev_tree(rc, probs, off, n, i, m, sym, upd) { Some((v, r2, p2)) => budget(rc, r2, (n - i) as nat, 0), None => true },
    decreases n - i
{
    if i >= n { lemma_budget_refl(rc); }
    else {
        lemma_pow2(i); lemma_pow2_mono(i + 1, n);
        lemma_budget_bit(rc, probs[(off + m) as int], upd);
        lemma_sp_bit(rc, probs[(off + m) as int], upd);
        match sp_bit(rc, probs[(off + m) as int], upd) {
            None => {},
            Some((b, r1, p1)) => {
                let probs1 = probs.update((off + m) as int, p1);
                let m1 = 2 * m + (if b { 1nat } else { 0nat });
                let sym1 = sym + (if b { pow2(i) } else { 0nat });
                lemma_budget_rev_tree(r1, probs1, off, n, i + 1, m1, sym1, upd);
                match sp_rev_tree(r1, probs1, off, n, i + 1, m1, sym1, upd) {
                    None => {},
                    Some((v, r2, p2)) => { lemma_budget_trans(rc, r1, r2, 1, 0, (n - i - 1) as nat, 0); }
                }
            }
        }
    }
}

pub proof fn lemma_budget_lit_plain(rc: Rc, probs: Seq<u16>, symbol: nat, j: nat, upd: bool)
    requires rc_ok(rc), probs_ok(probs), probs.len() == 0x300, j <= 8, pow2(j) <= symbol < 2 * pow2(j),
    ensures match sp_lit_plain(rc, probs, symbol, upd) { Some((s2, r2, p2)) => budget(rc, r2, (8 - j) as nat, 0), None => true },
    decreases 8 - j
{
    lemma_pow2(j); lemma_pow2(8); lemma_pow2_mono(j, 8);
    if symbol >= 0x100 || symbol == 0 {
        lemma_budget_refl(rc);
        lemma_budget_weaken(rc, rc, 0, 0, (8 - j) as nat, 0);
    } else {
        if j == 8 { assert(false); }
        lemma_pow2_mono(j + 1, 8);
        lemma_budget_bit(rc, probs[symbol as int], upd);
        lemma_sp_bit(rc, probs[symbol as int], upd);
        match sp_bit(rc, probs[symbol as int], upd) {
            None => {},
            Some((b, r1, p1)) => {
                let probs1 = probs.update(symbol as int, p1);
                let s1 = 2 * symbol + (if b { 1nat } else { 0nat });
                lemma_budget_lit_plain(r1, probs1, s1, j + 1, upd);
                match sp_lit_plain(r1, probs1, s1, upd) {
                    None => {},
                    Some((s2, r2, p2)) => { lemma_budget_trans(rc, r1, r2, 1, 0, (8 - j - 1) as nat, 0); }
                }
            }
        }
    }
}

pub proof fn lemma_budget_lit_matched(rc: Rc, probs: Seq<u16>, mb: nat, symbol: nat, j: nat, upd: bool)
    requires rc_ok(rc), probs_ok(probs), probs.len() == 0x300, j <= 8, pow2(j) <= symbol < 2 * pow2(j),
    ensures match sp_lit_matched(rc, probs, mb, symbol, upd) { Some((s2, r2, p2)) => budget(rc, r2, (8 - j) as nat, 0), None => true },
    decreases 8 - j
{
    lemma_pow2(j); lemma_pow2(8); lemma_pow2_mono(j, 8);
    if symbol >= 0x100 || symbol == 0 {
        lemma_budget_refl(rc);
        lemma_budget_weaken(rc, rc, 0, 0, (8 - j) as nat, 0);
    } else {
        if j == 8 { assert(false); }
        lemma_pow2_mono(j + 1, 8);
        let match_bit: nat = (mb / 128) % 2;
        let idx: nat = (1 + match_bit) * 256 + symbol;
        if idx < probs.len() {
            lemma_budget_bit(rc, probs[idx as int], upd);
            lemma_sp_bit(rc, probs[idx as int], upd);
            match sp_bit(rc, probs[idx as int], upd) {
                None => {},
                Some((b, r1, p1)) => {
                    let bit: nat = if b { 1 } else { 0 };
                    let probs1 = probs.update(idx as int, p1);
                    if match_bit != bit {
                        lemma_budget_lit_plain(r1, probs1, 2 * symbol + bit, j + 1, upd);
                        match sp_lit_plain(r1, probs1, 2 * symbol + bit, upd) {
                            None => {},
                            Some((s2, r2, p2)) => { lemma_budget_trans(rc, r1, r2, 1, 0, (8 - j - 1) as nat, 0); }
                        }
                    } else {
                        lemma_budget_lit_matched(r1, probs1, mb * 2, 2 * symbol + bit, j + 1, upd);
                        match sp_lit_matched(r1, probs1, mb * 2, 2 * symbol + bit, upd) {
                            None => {},
                            Some((s2, r2, p2)) => { lemma_budget_trans(rc, r1, r2, 1, 0, (8 - j - 1) as nat, 0); }
                        }
                    }
                }
            }
        }
    }
}

pub proof fn lemma_budget_literal(rc: Rc, m: LzS, w: Win, upd: bool)
    requires rc_ok(rc), lzs_ok(m), w.hist <= w.out.len(),
    ensures match sp_literal(rc, m, w, upd) { Some((byte, r2, m2)) => budget(rc, r2, 8, 0), None => true },
{
    reveal(sp_literal);
    lemma_pow2(0);
    let ls = sp_lit_state(m.lc, m.lp, w.hist, win_prev(w));
    if ls < m.lit.len() {
        let probs = m.lit[ls as int];
        if m.state >= 7 {
            if dist_ok(m.rep[0] + 1, w.hist, w.maxd) {
                lemma_budget_lit_matched(rc, probs, w.out[w.out.len() - (m.rep[0] + 1)] as nat, 1, 0, upd);
            }
        } else {
            lemma_budget_lit_plain(rc, probs, 1, 0, upd);
        }
    }
}

pub proof fn lemma_budget_len(rc: Rc, ld: LenS, ps: nat, upd: bool)
    requires rc_ok(rc), lens_ok(ld), ps < 16,
    ensures match sp_len(rc, ld, ps, upd) { Some((l, r2, ld2)) => budget(rc, r2, 10, 0), None => true },
{
    reveal(sp_len);
    lemma_pow2(3); lemma_pow2(8); lemma_pow2(0);
    lemma_budget_bit(rc, ld.choice, upd);
    lemma_sp_bit(rc, ld.choice, upd);
    match sp_bit(rc, ld.choice, upd) {
        None => {},
        Some((b1, r1, c1)) => {
            if !b1 {
                lemma_budget_tree(r1, ld.low[ps as int], 3, 0, 1, upd);
                match sp_tree(r1, ld.low[ps as int], 3, 0, 1, upd) {
                    None => {},
                    Some((mm, r2, p2)) => { lemma_budget_trans(rc, r1, r2, 1, 0, 3, 0); lemma_budget_weaken(rc, r2, 4, 0, 10, 0); }
                }
            } else {
                lemma_budget_bit(r1, ld.choice2, upd);
                lemma_sp_bit(r1, ld.choice2, upd);
                match sp_bit(r1, ld.choice2, upd) {
                    None => {},
                    Some((b2, r2, c2)) => {
                        lemma_budget_trans(rc, r1, r2, 1, 0, 1, 0);
                        let probs = if !b2 { ld.mid[ps as int] } else { ld.high };
                        let nb: nat = if !b2 { 3 } else { 8 };
                        lemma_budget_tree(r2, probs, nb, 0, 1, upd);
                        match sp_tree(r2, probs, nb, 0, 1, upd) {
                            None => {},
                            Some((mm, r3, p3)) => { lemma_budget_trans(rc, r2, r3, 2, 0, nb, 0); lemma_budget_weaken(rc, r3, 2 + nb, 0, 10, 0); }
                        }
                    }
                }
            }
        }
    }
}

pub proof fn lemma_budget_distance(rc: Rc, ps: Seq<Seq<u16>>, pd: Seq<u16>, al: Seq<u16>, len: nat, upd: bool)
    requires rc_ok(rc), seqs_ok(ps, 4, 64), pd.len() == 115, probs_ok(pd), al.len() == 16, probs_ok(al),
    ensures match sp_distance(rc, ps, pd, al, len, upd) { Some((d, r2, ps2, pd2, al2)) => budget(rc, r2, 11, 0) || budget(rc, r2, 10, 26), None => true },
{
    reveal(sp_distance);
    lemma_pow2(6); lemma_pow2(4); lemma_pow2(0);
    let len_state: nat = if len > 3 { 3 } else { len };
    lemma_budget_tree(rc, ps[len_state as int], 6, 0, 1, upd);
    lemma_sp_tree(rc, ps[len_state as int], 6, 0, 1, upd);
    match sp_tree(rc, ps[len_state as int], 6, 0, 1, upd) {
        None => {},
        Some((mm, r1, ps2)) => {
            let slot: nat = (mm - 64) as nat;
            if slot < 4 {
                lemma_budget_weaken(rc, r1, 6, 0, 11, 0);
            } else {
                let ndb: nat = ((slot / 2) - 1) as nat;
                let base: nat = (2 + slot % 2) * pow2(ndb);
                lemma_dist_slot(slot);
                if slot < 14 {
                    lemma_pow2(ndb);
                    lemma_budget_rev_tree(r1, pd, (base - slot) as nat, ndb, 0, 1, 0, upd);
                    match sp_rev_tree(r1, pd, (base - slot) as nat, ndb, 0, 1, 0, upd) {
                        None => {},
                        Some((v, r2, pd2)) => { lemma_budget_trans(rc, r1, r2, 6, 0, ndb, 0); lemma_budget_weaken(rc, r2, 6 + ndb, 0, 11, 0); }
                    }
                } else {
                    lemma_budget_direct_bits(r1, (ndb - 4) as nat, 0, 0);
                    match sp_direct_bits(r1, (ndb - 4) as nat, 0, 0) {
                        None => {},
                        Some((dd, r2)) => {
                            lemma_budget_trans(rc, r1, r2, 6, 0, 0, (ndb - 4) as nat);
                            lemma_budget_rev_tree(r2, al, 0, 4, 0, 1, 0, upd);
                            match sp_rev_tree(r2, al, 0, 4, 0, 1, 0, upd) {
                                None => {},
                                Some((a, r3, al2)) => {
                                    lemma_budget_trans(rc, r2, r3, 6, (ndb - 4) as nat, 4, 0);
                                    lemma_budget_weaken(rc, r3, 10, (ndb - 4) as nat, 10, 26);
                                }
                            }
                        }
                    }
                }
            }
        }
    }
}

/// slot in 4..64: number of direct bits is slot/2 - 1 in 1..30 and the reverse-tree window fits pos_decoders
pub proof fn lemma_dist_slot(slot: nat)
    requires 4 <= slot < 64,
    ensures ({
        let ndb: nat = ((slot / 2) - 1) as nat;
        let base: nat = (2 + slot % 2) * pow2(ndb);
        &&& 1 <= ndb <= 30 && base >= slot
        &&& (slot < 14 ==> ndb <= 5 && (base - slot) + pow2(ndb) <= 115)
        &&& (slot >= 14 ==> ndb >= 6)
    }),
{
    lemma_pow2(1); lemma_pow2(2); lemma_pow2(3); lemma_pow2(4); lemma_pow2(5); lemma_pow2(0);
    let ndb: nat = ((slot / 2) - 1) as nat;
    lemma_pow2(ndb);
    if slot >= 14 {
        lemma_pow2_mono(6, ndb); lemma_pow2(6);
        assert((2 + slot % 2) * pow2(ndb) >= slot) by (nonlinear_arith) requires pow2(ndb) >= 64, slot < 64, slot % 2 >= 0;
    } else {
        if slot == 4 { assert(ndb == 1 && slot % 2 == 0); assert(pow2(ndb) == 2); assert((2 + slot % 2) * pow2(ndb) == 4); }
        else if slot == 5 { assert(ndb == 1 && slot % 2 == 1); assert(pow2(ndb) == 2); assert((2 + slot % 2) * pow2(ndb) == 6); }
        else if slot == 6 { assert(ndb == 2 && slot % 2 == 0); assert(pow2(ndb) == 4); assert((2 + slot % 2) * pow2(ndb) == 8); }
        else if slot == 7 { assert(ndb == 2 && slot % 2 == 1); assert(pow2(ndb) == 4); assert((2 + slot % 2) * pow2(ndb) == 12); }
        else if slot == 8 { assert(ndb == 3 && slot % 2 == 0); assert(pow2(ndb) == 8); assert((2 + slot % 2) * pow2(ndb) == 16); }
        else if slot == 9 { assert(ndb == 3 && slot % 2 == 1); assert(pow2(ndb) == 8); assert((2 + slot % 2) * pow2(ndb) == 24); }
        else if slot == 10 { assert(ndb == 4 && slot % 2 == 0); assert(pow2(ndb) == 16); assert((2 + slot % 2) * pow2(ndb) == 32); }
        else if slot == 11 { assert(ndb == 4 && slot % 2 == 1); assert(pow2(ndb) == 16); assert((2 + slot % 2) * pow2(ndb) == 48); }
        else if slot == 12 { assert(ndb == 5 && slot % 2 == 0); assert(pow2(ndb) == 32); assert((2 + slot % 2) * pow2(ndb) == 64); }
        else { assert(slot == 13); assert(ndb == 5 && slot % 2 == 1); assert(pow2(ndb) == 32); assert((2 + slot % 2) * pow2(ndb) == 96); }
    }
}

/// a symbol: at most 23 adaptive bits and no direct bit, or at most 22 adaptive and 26 direct bits
pub open spec fn sym_budget(rc: Rc, r2: Rc) -> bool { budget(rc, r2, 23, 0) || budget(rc, r2, 22, 26) }

pub proof fn lemma_budget_step_replen(rc0: Rc, a0: nat, rc: Rc, m: LzS, w: Win, ps: nat, upd: bool)
    requires rc_ok(rc), lzs_ok(m), ps < 16, budget(rc0, rc, a0, 0), a0 <= 5,
    ensures match sp_step_replen(rc, m, w, ps, upd) { Some(res) => budget(rc0, res.1, 23, 0), None => true },
{
    reveal(sp_step_replen);
    lemma_budget_len(rc, m.rep_len, ps, upd);
    match sp_len(rc, m.rep_len, ps, upd) {
        None => {},
        Some((l, r2, ld2)) => { lemma_budget_trans(rc0, rc, r2, a0, 0, 10, 0); lemma_budget_weaken(rc0, r2, a0 + 10, 0, 23, 0); }
    }
}

pub proof fn lemma_budget_step_match(rc0: Rc, rc: Rc, m: LzS, w: Win, ps: nat, upd: bool)
    requires rc_ok(rc), lzs_ok(m), ps < 16, budget(rc0, rc, 2, 0),
    ensures match sp_step_match(rc, m, w, ps, upd) { Some(res) => sym_budget(rc0, res.1), None => true },
{
    reveal(sp_step_match);
    lemma_budget_len(rc, m.len, ps, upd);
    lemma_sp_len(rc, m.len, ps, upd);
    match sp_len(rc, m.len, ps, upd) {
        None => {},
        Some((l, r1, ld2)) => {
            let m1 = LzS { len: ld2, ..m };
            lemma_budget_trans(rc0, rc, r1, 2, 0, 10, 0);
            lemma_budget_distance(r1, m1.pos_slot, m1.pos_decoders, m1.align, l, upd);
            match sp_distance(r1, m1.pos_slot, m1.pos_decoders, m1.align, l, upd) {
                None => {},
                Some((d, r2, ps2, pd2, al2)) => {
                    if budget(r1, r2, 11, 0) { lemma_budget_trans(rc0, r1, r2, 12, 0, 11, 0); }
                    else { lemma_budget_trans(rc0, r1, r2, 12, 0, 10, 26); }
                }
            }
        }
    }
}

pub proof fn lemma_budget_step_rep(rc0: Rc, rc: Rc, m: LzS, w: Win, ps: nat, upd: bool)
    requires rc_ok(rc), lzs_ok(m), ps < 16, budget(rc0, rc, 2, 0),
    ensures match sp_step_rep(rc, m, w, ps, upd) { Some(res) => budget(rc0, res.1, 23, 0), None => true },
{
    reveal(sp_step_rep);
    let s = m.state;
    lemma_budget_bit(rc, m.is_rep_g0[s as int], upd);
    lemma_sp_bit(rc, m.is_rep_g0[s as int], upd);
    match sp_bit(rc, m.is_rep_g0[s as int], upd) {
        None => {},
        Some((b_g0, r1, p1)) => {
            lemma_budget_trans(rc0, rc, r1, 2, 0, 1, 0);
            let m1 = LzS { is_rep_g0: m.is_rep_g0.update(s as int, p1), ..m };
            if !b_g0 {
                let i0: nat = s * 16 + ps;
                lemma_budget_bit(r1, m1.is_rep0_long[i0 as int], upd);
                lemma_sp_bit(r1, m1.is_rep0_long[i0 as int], upd);
                match sp_bit(r1, m1.is_rep0_long[i0 as int], upd) {
                    None => {},
                    Some((b_long, r2, p2)) => {
                        lemma_budget_trans(rc0, r1, r2, 3, 0, 1, 0);
                        let m2 = LzS { is_rep0_long: m1.is_rep0_long.update(i0 as int, p2), ..m1 };
                        if !b_long { lemma_budget_weaken(rc0, r2, 4, 0, 23, 0); }
                        else { lemma_budget_step_replen(rc0, 4, r2, m2, w, ps, upd); }
                    }
                }
            } else {
                lemma_budget_bit(r1, m1.is_rep_g1[s as int], upd);
                lemma_sp_bit(r1, m1.is_rep_g1[s as int], upd);
                match sp_bit(r1, m1.is_rep_g1[s as int], upd) {
                    None => {},
                    Some((b_g1, r2, p2)) => {
                        lemma_budget_trans(rc0, r1, r2, 3, 0, 1, 0);
                        let m2 = LzS { is_rep_g1: m1.is_rep_g1.update(s as int, p2), ..m1 };
                        if !b_g1 {
                            let m3 = if upd { LzS { rep: seq![m.rep[1], m.rep[0], m.rep[2], m.rep[3]], ..m2 } } else { m2 };
                            lemma_budget_step_replen(rc0, 4, r2, m3, w, ps, upd);
                        } else {
                            lemma_budget_bit(r2, m2.is_rep_g2[s as int], upd);
                            lemma_sp_bit(r2, m2.is_rep_g2[s as int], upd);
                            match sp_bit(r2, m2.is_rep_g2[s as int], upd) {
                                None => {},
                                Some((b_g2, r3, p3)) => {
                                    lemma_budget_trans(rc0, r2, r3, 4, 0, 1, 0);
                                    let m3 = LzS { is_rep_g2: m2.is_rep_g2.update(s as int, p3), ..m2 };
                                    let m4 = if !upd { m3 }
                                        else if !b_g2 { LzS { rep: seq![m.rep[2], m.rep[0], m.rep[1], m.rep[3]], ..m3 } }
                                        else { LzS { rep: seq![m.rep[3], m.rep[0], m.rep[1], m.rep[2]], ..m3 } };
                                    lemma_budget_step_replen(rc0, 5, r3, m4, w, ps, upd);
                                }
                            }
                        }
                    }
                }
            }
        }
    }
}

pub proof fn lemma_budget_step(rc: Rc, m: LzS, w: Win, upd: bool)
    requires rc_ok(rc), lzs_ok(m), w.hist <= w.out.len(),
    ensures match sp_step(rc, m, w, upd) { Some(res) => sym_budget(rc, res.1), None => true },
{
    lemma_pow2(4); lemma_pow2_mono(m.pb, 4); lemma_pow2(m.pb);
    let pos_state: nat = w.hist % pow2(m.pb);
    assert(pos_state < 16) by (nonlinear_arith) requires pos_state == w.hist % pow2(m.pb), 1 <= pow2(m.pb) <= 16;
    let i_match: nat = m.state * 16 + pos_state;
    lemma_budget_bit(rc, m.is_match[i_match as int], upd);
    lemma_sp_bit(rc, m.is_match[i_match as int], upd);
    match sp_bit(rc, m.is_match[i_match as int], upd) {
        None => {},
        Some((b_match, r1, p1)) => {
            let m1 = LzS { is_match: m.is_match.update(i_match as int, p1), ..m };
            assert(lzs_ok(m1));
            if !b_match {
                lemma_budget_literal(r1, m1, w, upd);
                match sp_literal(r1, m1, w, upd) {
                    None => {},
                    Some((byte, r2, m2)) => { lemma_budget_trans(rc, r1, r2, 1, 0, 8, 0); lemma_budget_weaken(rc, r2, 9, 0, 23, 0); }
                }
            } else {
                lemma_budget_bit(r1, m1.is_rep[m.state as int], upd);
                lemma_sp_bit(r1, m1.is_rep[m.state as int], upd);
                match sp_bit(r1, m1.is_rep[m.state as int], upd) {
                    None => {},
                    Some((b_rep, r2, p2)) => {
                        lemma_budget_trans(rc, r1, r2, 1, 0, 1, 0);
                        let m2 = LzS { is_rep: m1.is_rep.update(m.state as int, p2), ..m1 };
                        assert(lzs_ok(m2));
                        if b_rep { lemma_budget_step_rep(rc, r2, m2, w, pos_state, upd); }
                        else { lemma_budget_step_match(rc, r2, m2, w, pos_state, upd); }
                    }
                }
            }
        }
    }
}

/// THE BOUND: one symbol, decoded from a normalised coder with probabilities in [31, 2017], consumes at most 20 bytes
pub proof fn lemma_symbol_needs_at_most_20_bytes(rc: Rc, m: LzS, w: Win, upd: bool)
    requires rc_ok(rc), lzs_ok(m), w.hist <= w.out.len(),
    ensures match sp_step(rc, m, w, upd) { Some(res) => used(rc, res.1) <= 20, None => true },
{
    lemma_budget_step(rc, m, w, upd);
    lemma_sp_step(rc, m, w, upd);
    match sp_step(rc, m, w, upd) {
        None => {},
        Some(res) => {
            reveal(budget);
            let r2 = res.1;
            let k = used(rc, r2) as nat;
            if k >= 21 {
                lemma_pw_mono(256, 21, k);
                let x = r2.range as nat; let z = rc.range as nat;
                assert(x < 0x1_0000_0000 && z >= 0x100_0000);
                if budget(rc, r2, 23, 0) {
                    lemma_budget_numbers();
                    let (h, g21, gk) = (bud_h(23, 0), bud_g(23, 0, 21), bud_g(23, 0, k));
                    assert(gk >= g21) by (nonlinear_arith)
                        requires gk == pw(253921, 23) * pw(0xFF_FFFF, 0) * pw(256, k), g21 == pw(253921, 23) * pw(0xFF_FFFF, 0) * pw(256, 21), pw(256, k) >= pw(256, 21);
                    assert(false) by (nonlinear_arith)
                        requires x * h >= z * gk, gk >= g21, x < 0x1_0000_0000, z >= 0x100_0000, 0x1_0000_0000 * h < 0x100_0000 * g21, h >= 1;
                } else {
                    lemma_budget_numbers();
                    let (h, g21, gk) = (bud_h(22, 26), bud_g(22, 26, 21), bud_g(22, 26, k));
                    assert(gk >= g21) by (nonlinear_arith)
                        requires gk == pw(253921, 22) * pw(0xFF_FFFF, 26) * pw(256, k), g21 == pw(253921, 22) * pw(0xFF_FFFF, 26) * pw(256, 21), pw(256, k) >= pw(256, 21);
                    assert(false) by (nonlinear_arith)
                        requires x * h >= z * gk, gk >= g21, x < 0x1_0000_0000, z >= 0x100_0000, 0x1_0000_0000 * h < 0x100_0000 * g21, h >= 1;
                }
            }
        }
    }
}

/// the two closed numeric facts: 21 bytes would need more Range than there is
pub proof fn lemma_budget_numbers()
    ensures 0x1_0000_0000 * bud_h(23, 0) < 0x100_0000 * bud_g(23, 0, 21), bud_h(23, 0) >= 1,
        0x1_0000_0000 * bud_h(22, 26) < 0x100_0000 * bud_g(22, 26, 21), bud_h(22, 26) >= 1,
{
    assert(0x1_0000_0000 * bud_h(23, 0) < 0x100_0000 * bud_g(23, 0, 21)) by (compute);
    assert(0x1_0000_0000 * bud_h(22, 26) < 0x100_0000 * bud_g(22, 26, 21)) by (compute);
    lemma_pw_pos(0x100_0000, 23); lemma_pw_pos(0x200_0000, 0); lemma_pw_pos(0x100_0000, 22); lemma_pw_pos(0x200_0000, 26);
    assert(bud_h(23, 0) >= 1) by (nonlinear_arith) requires bud_h(23, 0) == pw(0x100_0000, 23) * pw(0x200_0000, 0), pw(0x100_0000, 23) >= 1, pw(0x200_0000, 0) >= 1;
    assert(bud_h(22, 26) >= 1) by (nonlinear_arith) requires bud_h(22, 26) == pw(0x100_0000, 22) * pw(0x200_0000, 26), pw(0x100_0000, 22) >= 1, pw(0x200_0000, 26) >= 1;
}
