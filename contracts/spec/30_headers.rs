// =============================================================================================
// Format specification, part 3: the .lzma header (LZMA SDK lzma-specification.txt, "lzma file format")
//   byte 0      : properties  d = lc + 9 * (lp + 5 * pb),  d < 225   (lc = d % 9; d /= 9; lp = d % 5; pb = d / 5)
//   bytes 1..5  : dictionary size, 32-bit little endian; values below 4096 (1 << 12) are treated as 4096
//   bytes 5..13 : uncompressed size, 64-bit little endian; all ones = unknown (end marker mandatory)
// =============================================================================================
pub open spec fn sp_props(d: u8) -> Option<(nat, nat, nat)> {
    if d >= 225 { None } else { Some(((d % 9) as nat, ((d / 9) % 5) as nat, ((d / 9) / 5) as nat)) }
}
pub open spec fn sp_dict_size(raw: u32) -> u32 { if raw < 0x1000 { 0x1000 } else { raw } }
pub open spec fn sp_size_field(raw: u64) -> Option<u64> { if raw == 0xFFFF_FFFF_FFFF_FFFF { None } else { Some(raw) } }
