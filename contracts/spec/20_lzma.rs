// =============================================================================================
// Format specification, part 2: the LZMA symbol decoder (LZMA SDK lzma-specification.txt,
// sections "LZMA Decoding modes", "Decoding of literals / match length / distance").
// Transcribed from the format document.  `upd == false` is lzma-rs's dry-run mode: the same bits
// are read with the same probability slots, but nothing (model, state, reps, output) is changed.
// =============================================================================================

pub struct LzS {
    pub lc: nat,
    pub lp: nat,
    pub pb: nat,
    pub lit: Seq<Seq<u16>>,        // (1 << (lc + lp)) tables of 0x300 probabilities
    pub pos_slot: Seq<Seq<u16>>,   // kNumLenToPosStates (4) trees of 64
    pub align: Seq<u16>,           // 16
    pub pos_decoders: Seq<u16>,    // 1 + kNumFullDistances (128) - kEndPosModelIndex (14) = 115
    pub is_match: Seq<u16>,        // kNumStates (12) << kNumPosBitsMax (4) = 192
    pub is_rep: Seq<u16>,          // 12
    pub is_rep_g0: Seq<u16>,
    pub is_rep_g1: Seq<u16>,
    pub is_rep_g2: Seq<u16>,
    pub is_rep0_long: Seq<u16>,    // 192
    pub len: LenS,
    pub rep_len: LenS,
    pub state: nat,                // 0..11
    pub rep: Seq<nat>,             // rep0..rep3
}

pub enum StepStatus { Continue, Finished }

// ---- state machine tables (kNumStates = 12) ---------------------------------------------------
pub open spec fn st_literal(s: nat) -> nat { if s < 4 { 0 } else if s < 10 { (s - 3) as nat } else { (s - 6) as nat } }
pub open spec fn st_match(s: nat) -> nat { if s < 7 { 7 } else { 10 } }
pub open spec fn st_rep(s: nat) -> nat { if s < 7 { 8 } else { 11 } }
pub open spec fn st_shortrep(s: nat) -> nat { if s < 7 { 9 } else { 11 } }

// ---- literals -----------------------------------------------------------------------------
/// plain part: while (symbol < 0x100) symbol = (symbol << 1) | DecodeBit(&probs[symbol])
pub open spec fn sp_lit_plain(rc: Rc, probs: Seq<u16>, symbol: nat, upd: bool) -> Option<(nat, Rc, Seq<u16>)>
    decreases 0x200 - symbol
{
    if symbol >= 0x100 || symbol == 0 { Some((symbol, rc, probs)) }
    else if symbol >= probs.len() { None }
    else {
        match sp_bit(rc, probs[symbol as int], upd) {
            None => None,
            Some((b, r2, p2)) => sp_lit_plain(r2, probs.update(symbol as int, p2), 2 * symbol + (if b { 1nat } else { 0nat }), upd),
        }
    }
}

/// matched part (state >= 7): matchBit = (matchByte >> 7) & 1; matchByte <<= 1;
/// bit = DecodeBit(&probs[((1 + matchBit) << 8) + symbol]); symbol = (symbol << 1) | bit;
/// leave matched mode as soon as matchBit != bit.
pub open spec fn sp_lit_matched(rc: Rc, probs: Seq<u16>, match_byte: nat, symbol: nat, upd: bool) -> Option<(nat, Rc, Seq<u16>)>
    decreases 0x200 - symbol
{
    if symbol >= 0x100 || symbol == 0 { Some((symbol, rc, probs)) }
    else {
        let match_bit: nat = (match_byte / 128) % 2;
        let idx: nat = (1 + match_bit) * 256 + symbol;
        if idx >= probs.len() { None }
        else {
            match sp_bit(rc, probs[idx as int], upd) {
                None => None,
                Some((b, r2, p2)) => {
                    let bit: nat = if b { 1 } else { 0 };
                    let probs2 = probs.update(idx as int, p2);
                    if match_bit != bit { sp_lit_plain(r2, probs2, 2 * symbol + bit, upd) }
                    else { sp_lit_matched(r2, probs2, match_byte * 2, 2 * symbol + bit, upd) }
                }
            }
        }
    }
}

/// litState = ((TotalPos & ((1 << lp) - 1)) << lc) + (prevByte >> (8 - lc))
pub open spec fn sp_lit_state(lc: nat, lp: nat, total_pos: nat, prev_byte: nat) -> nat {
    (total_pos % pow2(lp)) * pow2(lc) + prev_byte / pow2((8 - lc) as nat)
}

// ---- distances ----------------------------------------------------------------------------
/// DecodeDistance(len) with len = match length - 2.  Returns rep0 (distance - 1).
#[verifier::opaque]
pub open spec fn sp_distance(rc: Rc, pos_slot: Seq<Seq<u16>>, pos_decoders: Seq<u16>, align: Seq<u16>, len: nat, upd: bool)
    -> Option<(nat, Rc, Seq<Seq<u16>>, Seq<u16>, Seq<u16>)>
{
    let len_state: nat = if len > 3 { 3 } else { len };
    match sp_tree(rc, pos_slot[len_state as int], 6, 0, 1, upd) {
        None => None,
        Some((m, r1, ps2)) => {
            let slot: nat = (m - 64) as nat;
            let pos_slot2 = pos_slot.update(len_state as int, ps2);
            if slot < 4 { Some((slot, r1, pos_slot2, pos_decoders, align)) }
            else {
                let ndb: nat = ((slot / 2) - 1) as nat;
                let base: nat = (2 + slot % 2) * pow2(ndb);
                if slot < 14 {
                    match sp_rev_tree(r1, pos_decoders, (base - slot) as nat, ndb, 0, 1, 0, upd) {
                        None => None,
                        Some((v, r2, pd2)) => Some((base + v, r2, pos_slot2, pd2, align)),
                    }
                } else {
                    match sp_direct_bits(r1, (ndb - 4) as nat, 0, 0) {
                        None => None,
                        Some((d, r2)) => match sp_rev_tree(r2, align, 0, 4, 0, 1, 0, upd) {
                            None => None,
                            Some((a, r3, al2)) => Some((base + (d as nat) * 16 + a, r3, pos_slot2, pos_decoders, al2)),
                        },
                    }
                }
            }
        }
    }
}

// ---- the output window as seen by the symbol decoder ------------------------------------------
/// a copy (match / rep / short rep) at distance `dist` is legal iff it reaches neither before the
/// data produced since the last dictionary reset nor beyond the dictionary size
pub open spec fn dist_ok(dist: nat, hist: nat, maxd: nat) -> bool { 1 <= dist <= hist && dist <= maxd }

pub struct Win {
    pub out: Seq<u8>,   // everything produced so far (behind whatever the sink held before)
    pub hist: nat,      // bytes since the last dictionary reset
    pub maxd: nat,      // dictionary size
}

pub open spec fn win_push(w: Win, b: u8) -> Win { Win { out: w.out.push(b), hist: w.hist + 1, ..w } }
pub open spec fn win_copy(w: Win, len: nat, dist: nat) -> Win {
    Win { out: lz_copy(w.out, len, dist as int), hist: w.hist + len, ..w }
}
pub open spec fn win_prev(w: Win) -> nat { if w.hist == 0 { 0 } else { w.out[w.out.len() - 1] as nat } }

// ---- one symbol --------------------------------------------------------------------------------
pub open spec fn lit_finish(res: Option<(nat, Rc, Seq<u16>)>, m: LzS, ls: int) -> Option<(u8, Rc, LzS)> {
    match res {
        None => None,
        Some((sym, r2, p2)) => Some((((sym - 0x100) as nat) as u8, r2, LzS { lit: m.lit.update(ls, p2), ..m })),
    }
}

#[verifier::opaque]
pub open spec fn sp_literal(rc: Rc, m: LzS, w: Win, upd: bool) -> Option<(u8, Rc, LzS)> {
    let ls = sp_lit_state(m.lc, m.lp, w.hist, win_prev(w));
    if ls >= m.lit.len() { None }
    else {
        let probs = m.lit[ls as int];
        let res = if m.state >= 7 {
            if !dist_ok(m.rep[0] + 1, w.hist, w.maxd) { None }
            else { sp_lit_matched(rc, probs, w.out[w.out.len() - (m.rep[0] + 1)] as nat, 1, upd) }
        } else {
            sp_lit_plain(rc, probs, 1, upd)
        };
        lit_finish(res, m, ls as int)
    }
}

pub open spec fn sp_step(rc: Rc, m: LzS, w: Win, upd: bool) -> Option<(StepStatus, Rc, LzS, Win)> {
    let pos_state: nat = w.hist % pow2(m.pb);
    let i_match: nat = m.state * 16 + pos_state;
    match sp_bit(rc, m.is_match[i_match as int], upd) {
        None => None,
        Some((b_match, r1, p1)) => {
            let m1 = LzS { is_match: m.is_match.update(i_match as int, p1), ..m };
            if !b_match {
                // ---- literal
                match sp_literal(r1, m1, w, upd) {
                    None => None,
                    Some((byte, r2, m2)) =>
                        if upd { Some((StepStatus::Continue, r2, LzS { state: st_literal(m.state), ..m2 }, win_push(w, byte))) }
                        else { Some((StepStatus::Continue, r2, m2, w)) },
                }
            } else {
                match sp_bit(r1, m1.is_rep[m.state as int], upd) {
                    None => None,
                    Some((b_rep, r2, p2)) => {
                        let m2 = LzS { is_rep: m1.is_rep.update(m.state as int, p2), ..m1 };
                        if b_rep { sp_step_rep(r2, m2, w, pos_state, upd) } else { sp_step_match(r2, m2, w, pos_state, upd) }
                    }
                }
            }
        }
    }
}

/// rep-match family: short rep / rep0 long / rep1 / rep2 / rep3
#[verifier::opaque]
pub open spec fn sp_step_rep(rc: Rc, m: LzS, w: Win, pos_state: nat, upd: bool) -> Option<(StepStatus, Rc, LzS, Win)> {
    let s = m.state;
    match sp_bit(rc, m.is_rep_g0[s as int], upd) {
        None => None,
        Some((b_g0, r1, p1)) => {
            let m1 = LzS { is_rep_g0: m.is_rep_g0.update(s as int, p1), ..m };
            if !b_g0 {
                let i0: nat = s * 16 + pos_state;
                match sp_bit(r1, m1.is_rep0_long[i0 as int], upd) {
                    None => None,
                    Some((b_long, r2, p2)) => {
                        let m2 = LzS { is_rep0_long: m1.is_rep0_long.update(i0 as int, p2), ..m1 };
                        if !b_long {
                            // short rep: one byte from distance rep0 + 1
                            if !upd { Some((StepStatus::Continue, r2, m2, w)) }
                            else if !dist_ok(m.rep[0] + 1, w.hist, w.maxd) { None }
                            else { Some((StepStatus::Continue, r2, LzS { state: st_shortrep(s), ..m2 }, win_copy(w, 1, m.rep[0] + 1))) }
                        } else {
                            sp_step_replen(r2, m2, w, pos_state, upd)
                        }
                    }
                }
            } else {
                match sp_bit(r1, m1.is_rep_g1[s as int], upd) {
                    None => None,
                    Some((b_g1, r2, p2)) => {
                        let m2 = LzS { is_rep_g1: m1.is_rep_g1.update(s as int, p2), ..m1 };
                        if !b_g1 {
                            // dist = rep1; rep1 = rep0; rep0 = dist
                            let m3 = if upd { LzS { rep: seq![m.rep[1], m.rep[0], m.rep[2], m.rep[3]], ..m2 } } else { m2 };
                            sp_step_replen(r2, m3, w, pos_state, upd)
                        } else {
                            match sp_bit(r2, m2.is_rep_g2[s as int], upd) {
                                None => None,
                                Some((b_g2, r3, p3)) => {
                                    let m3 = LzS { is_rep_g2: m2.is_rep_g2.update(s as int, p3), ..m2 };
                                    let m4 = if !upd { m3 }
                                        else if !b_g2 { LzS { rep: seq![m.rep[2], m.rep[0], m.rep[1], m.rep[3]], ..m3 } }
                                        else { LzS { rep: seq![m.rep[3], m.rep[0], m.rep[1], m.rep[2]], ..m3 } };
                                    sp_step_replen(r3, m4, w, pos_state, upd)
                                }
                            }
                        }
                    }
                }
            }
        }
    }
}

/// len = RepLenDecoder.Decode(posState); state = UpdateState_Rep; copy len + 2 bytes from rep0 + 1
#[verifier::opaque]
pub open spec fn sp_step_replen(rc: Rc, m: LzS, w: Win, pos_state: nat, upd: bool) -> Option<(StepStatus, Rc, LzS, Win)> {
    match sp_len(rc, m.rep_len, pos_state, upd) {
        None => None,
        Some((l, r2, ld2)) => {
            let m2 = LzS { rep_len: ld2, ..m };
            if !upd { Some((StepStatus::Continue, r2, m2, w)) }
            else if !dist_ok(m.rep[0] + 1, w.hist, w.maxd) { None }
            else { Some((StepStatus::Continue, r2, LzS { state: st_rep(m.state), ..m2 }, win_copy(w, l + 2, m.rep[0] + 1))) }
        }
    }
}

/// new match: rep3 = rep2; rep2 = rep1; rep1 = rep0; len; state = UpdateState_Match; rep0 = distance;
/// rep0 == 0xFFFFFFFF is the end marker (legal only if the range coder is finished: Code == 0 and
/// no input left).
#[verifier::opaque]
pub open spec fn sp_step_match(rc: Rc, m: LzS, w: Win, pos_state: nat, upd: bool) -> Option<(StepStatus, Rc, LzS, Win)> {
    match sp_len(rc, m.len, pos_state, upd) {
        None => None,
        Some((l, r1, ld2)) => {
            let m1 = LzS { len: ld2, ..m };
            match sp_distance(r1, m1.pos_slot, m1.pos_decoders, m1.align, l, upd) {
                None => None,
                Some((d, r2, ps2, pd2, al2)) => {
                    let m2 = LzS { pos_slot: ps2, pos_decoders: pd2, align: al2, ..m1 };
                    if !upd { Some((StepStatus::Continue, r2, m2, w)) }
                    else {
                        let m3 = LzS { rep: seq![d, m.rep[0], m.rep[1], m.rep[2]], state: st_match(m.state), ..m2 };
                        if d == 0xFFFF_FFFF {
                            if r2.code == 0 && r2.inp.len() == 0 { Some((StepStatus::Finished, r2, m3, w)) } else { None }
                        } else if !dist_ok(d + 1, w.hist, w.maxd) { None }
                        else { Some((StepStatus::Continue, r2, m3, win_copy(w, l + 2, d + 1))) }
                    }
                }
            }
        }
    }
}

// ---- component-wise model equality (avoids extensionality obligations in contracts) ------------
pub open spec fn seqs_eq(a: Seq<Seq<u16>>, b: Seq<Seq<u16>>) -> bool {
    a.len() == b.len() && forall|i: int| 0 <= i < a.len() ==> #[trigger] a[i] =~= b[i]
}
pub open spec fn lzs_eq(a: LzS, b: LzS) -> bool {
    &&& a.lc == b.lc && a.lp == b.lp && a.pb == b.pb && a.state == b.state
    &&& seqs_eq(a.lit, b.lit) && seqs_eq(a.pos_slot, b.pos_slot)
    &&& a.align =~= b.align && a.pos_decoders =~= b.pos_decoders && a.is_match =~= b.is_match
    &&& a.is_rep =~= b.is_rep && a.is_rep_g0 =~= b.is_rep_g0 && a.is_rep_g1 =~= b.is_rep_g1
    &&& a.is_rep_g2 =~= b.is_rep_g2 && a.is_rep0_long =~= b.is_rep0_long
    &&& lens_eq(a.len, b.len) && lens_eq(a.rep_len, b.rep_len)
    &&& a.rep.len() == 4 && b.rep.len() == 4
    &&& a.rep[0] == b.rep[0] && a.rep[1] == b.rep[1] && a.rep[2] == b.rep[2] && a.rep[3] == b.rep[3]
}
pub broadcast proof fn lemma_seqs_eq(a: Seq<Seq<u16>>, b: Seq<Seq<u16>>)
    requires #[trigger] seqs_eq(a, b),
    ensures a == b,
{
    assert(a =~= b);
}
pub broadcast proof fn lemma_lzs_eq(a: LzS, b: LzS)
    requires #[trigger] lzs_eq(a, b),
    ensures a == b,
{
    assert(a.lit =~= b.lit);
    assert(a.pos_slot =~= b.pos_slot);
    assert(a.rep =~= b.rep);
    lemma_lens_eq(a.len, b.len);
    lemma_lens_eq(a.rep_len, b.rep_len);
}

/// posState = TotalPos & ((1 << pb) - 1)
pub proof fn lemma_pos_state(len: usize, pb: u32)
    requires pb <= 4,
    ensures (1usize << pb) >= 1, (len & (((1usize << pb) - 1) as usize)) == (len as nat) % pow2(pb as nat),
        (len & (((1usize << pb) - 1) as usize)) < 16,
{
    let a: usize = 1usize << pb;
    lemma_shl64(pb as nat);
    let x: usize = len & ((a - 1) as usize);
    assert(a >= 1 && a <= 16 && x == len % a && x < a) by (bit_vector) requires pb <= 4, a == 1usize << pb, x == len & ((a - 1) as usize);
}
pub proof fn lemma_state_shl(st: usize)
    requires st < 12,
    ensures (st << 4) == st * 16,
{
    assert((st << 4) == st * 16) by (bit_vector) requires st < 12;
}

/// a successful step only ever appends to the output; the dictionary configuration is untouched
pub proof fn lemma_step_extends(rc: Rc, m: LzS, w: Win, upd: bool)
    requires w.hist <= w.out.len(),
    ensures match sp_step(rc, m, w, upd) {
        Some((st, r2, m2, w2)) => w.out.is_prefix_of(w2.out) && w2.hist >= w.hist && w2.maxd == w.maxd
            && w2.out.len() - w.out.len() == w2.hist - w.hist && (!upd ==> w2 == w),
        None => true,
    },
{
    reveal(sp_step_rep); reveal(sp_step_replen); reveal(sp_step_match);
    let d0 = m.rep[0] + 1;
    if dist_ok(d0, w.hist, w.maxd) && w.hist <= w.out.len() {
        lemma_lz_copy_prefix(w.out, 0, 1, d0 as int);
        lemma_lz_copy_step(w.out, 1, d0 as int);
    }
    assert forall|len: nat, dist: nat| dist_ok(dist, w.hist, w.maxd) && w.hist <= w.out.len() implies
        w.out.is_prefix_of(#[trigger] lz_copy(w.out, len, dist as int)) && lz_copy(w.out, len, dist as int).len() == w.out.len() + len by {
        lemma_lz_copy_prefix(w.out, 0, len, dist as int);
        lemma_lz_copy_step(w.out, len, dist as int);
    }
    assert forall|b: u8| w.out.is_prefix_of(#[trigger] w.out.push(b)) by {}
    reveal(sp_literal);
}

// ---- the initial model: every probability is kBitModelTotal / 2 = 0x400, state 0, reps 0 -------
pub open spec fn fresh_probs(n: nat) -> Seq<u16> { Seq::new(n, |i: int| 0x400u16) }
pub open spec fn fresh_lens() -> LenS {
    LenS { choice: 0x400, choice2: 0x400, low: Seq::new(16, |i: int| fresh_probs(8)), mid: Seq::new(16, |i: int| fresh_probs(8)),
           high: fresh_probs(256) }
}
pub open spec fn fresh_model(lc: nat, lp: nat, pb: nat) -> LzS {
    LzS {
        lc: lc, lp: lp, pb: pb,
        lit: Seq::new(pow2(lc + lp), |i: int| fresh_probs(0x300)),
        pos_slot: Seq::new(4, |i: int| fresh_probs(64)),
        align: fresh_probs(16), pos_decoders: fresh_probs(115), is_match: fresh_probs(192),
        is_rep: fresh_probs(12), is_rep_g0: fresh_probs(12), is_rep_g1: fresh_probs(12), is_rep_g2: fresh_probs(12),
        is_rep0_long: fresh_probs(192),
        len: fresh_lens(), rep_len: fresh_lens(),
        state: 0, rep: seq![0nat, 0nat, 0nat, 0nat],
    }
}
