// =============================================================================================
// Format specification, part 4: decoding a whole LZMA payload (symbol loop + termination rules).
//   size in effect (Some(n)): stop as soon as n bytes are produced; exactly n must have been produced
//       (an end marker met earlier, or a match running past n, is an error);
//   no size in effect: run to the end marker (0xFFFFFFFF distance with the range coder finished).
// KNOWN FINDING F-C08 (carved out explicitly, see known_findings.json): with no size in effect
// lzma-rs ALSO stops successfully, without a marker, when it stands at a symbol boundary with
// Code == 0 and no input left.  `markerless_stop` is that carve-out and nothing else.
// =============================================================================================

pub open spec fn markerless_stop(rc: Rc) -> bool { rc.code == 0 && rc.inp.len() == 0 }

pub open spec fn run_pre(rc: Rc, m: LzS, w: Win) -> bool { rc_ok(rc) && lzs_ok(m) && w.hist <= w.out.len() }

pub open spec fn sp_run(rc: Rc, m: LzS, w: Win, size: Option<u64>) -> Option<(Rc, LzS, Win)>
    decreases rc.inp.len(), rc.range when run_pre(rc, m, w) via sp_run_decreases
{
    match size {
        Some(n) => {
            if w.hist >= n {
                if w.hist == n { Some((rc, m, w)) } else { None }
            } else {
                match sp_step(rc, m, w, true) {
                    None => None,
                    Some((StepStatus::Finished, r2, m2, w2)) => if w2.hist == n { Some((r2, m2, w2)) } else { None },
                    Some((StepStatus::Continue, r2, m2, w2)) => sp_run(r2, m2, w2, size),
                }
            }
        },
        None => {
            if markerless_stop(rc) { Some((rc, m, w)) }
            else {
                match sp_step(rc, m, w, true) {
                    None => None,
                    Some((StepStatus::Finished, r2, m2, w2)) => Some((r2, m2, w2)),
                    Some((StepStatus::Continue, r2, m2, w2)) => sp_run(r2, m2, w2, size),
                }
            }
        },
    }
}

#[via_fn]
proof fn sp_run_decreases(rc: Rc, m: LzS, w: Win, size: Option<u64>) {
    lemma_sp_step(rc, m, w, true);
    lemma_step_extends(rc, m, w, true);
}

pub proof fn lemma_step_pre(rc: Rc, m: LzS, w: Win)
    requires run_pre(rc, m, w),
    ensures match sp_step(rc, m, w, true) {
        Some((st, r2, m2, w2)) => run_pre(r2, m2, w2) && rc_lt(r2, rc) && rc_adv(rc, r2) && w.out.is_prefix_of(w2.out) && w2.maxd == w.maxd,
        None => true,
    },
{
    lemma_sp_step(rc, m, w, true);
    lemma_step_extends(rc, m, w, true);
}

pub proof fn lemma_run_extends(rc: Rc, m: LzS, w: Win, size: Option<u64>)
    requires run_pre(rc, m, w),
    ensures match sp_run(rc, m, w, size) {
        Some((r2, m2, w2)) => w.out.is_prefix_of(w2.out) && w2.hist >= w.hist && w2.maxd == w.maxd
            && w2.out.len() - w.out.len() == w2.hist - w.hist && rc_adv(rc, r2) && run_pre(r2, m2, w2),
        None => true,
    },
    decreases rc.inp.len(), rc.range
{
    lemma_step_pre(rc, m, w);
    lemma_step_extends(rc, m, w, true);
    assert(rc.inp.skip(0) =~= rc.inp);
    let stop = match size { Some(n) => w.hist >= n, None => markerless_stop(rc) };
    if !stop {
        match sp_step(rc, m, w, true) {
            None => {},
            Some((st, r2, m2, w2)) => {
                if st is Continue {
                    lemma_run_extends(r2, m2, w2, size);
                    match sp_run(r2, m2, w2, size) {
                        None => {},
                        Some((r3, m3, w3)) => { lemma_rc_adv_trans(rc, r2, r3); }
                    }
                }
            }
        }
    }
}
