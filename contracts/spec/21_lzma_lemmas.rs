// ---- progress and well-formedness of the spec symbol decoder (pure mathematics) -----------------
// Every decoded bit either consumes an input byte or strictly shrinks Range (rc_lt), and keeps
// Range >= 2^24 and all probabilities in [31, 2017].  Hence one symbol strictly decreases the pair
// (input left, Range) lexicographically: the decoder cannot spin without consuming input.

pub proof fn lemma_rc_lt_trans(a: Rc, b: Rc, c: Rc)
    requires rc_le(b, a), rc_le(c, b),
    ensures rc_le(c, a), (rc_lt(b, a) || rc_lt(c, b)) ==> rc_lt(c, a),
{}

pub proof fn lemma_sp_rev_tree(rc: Rc, probs: Seq<u16>, off: nat, n: nat, i: nat, m: nat, sym: nat, upd: bool)
    requires rc_ok(rc), probs_ok(probs), i <= n, pow2(i) <= m < 2 * pow2(i), sym < pow2(i), probs.len() >= off + pow2(n),
    ensures match sp_rev_tree(rc, probs, off, n, i, m, sym, upd) {
        Some((v, r2, p2)) => rc_ok(r2) && probs_ok(p2) && p2.len() == probs.len() && rc_le(r2, rc) && rc_adv(rc, r2)
            && (i < n ==> rc_lt(r2, rc)),
        None => true,
    },
    decreases n - i
{
    lemma_pow2(i);
    if i >= n {
        assert(rc.inp.skip(0) =~= rc.inp);
    } else {
        lemma_pow2_mono(i + 1, n);
        lemma_sp_bit(rc, probs[(off + m) as int], upd);
        match sp_bit(rc, probs[(off + m) as int], upd) {
            None => {},
            Some((b, r2, p2)) => {
                let pr2 = probs.update((off + m) as int, p2);
                assert(probs_ok(pr2));
                let m2 = 2 * m + (if b { 1nat } else { 0nat });
                let s2 = sym + (if b { pow2(i) } else { 0nat });
                lemma_sp_rev_tree(r2, pr2, off, n, i + 1, m2, s2, upd);
                match sp_rev_tree(r2, pr2, off, n, i + 1, m2, s2, upd) {
                    None => {},
                    Some((v, r3, p3)) => { lemma_rc_adv_trans(rc, r2, r3); }
                }
            }
        }
    }
}

pub proof fn lemma_sp_direct_bits(rc: Rc, n: nat, i: nat, acc: u32)
    requires rc_ok(rc), i <= n,
    ensures match sp_direct_bits(rc, n, i, acc) {
        Some((v, r2)) => rc_ok(r2) && rc_le(r2, rc) && rc_adv(rc, r2) && (i < n ==> rc_lt(r2, rc)),
        None => true,
    },
    decreases n - i
{
    if i >= n {
        assert(rc.inp.skip(0) =~= rc.inp);
    } else {
        lemma_sp_direct_bit(rc);
        match sp_direct_bit(rc) {
            None => {},
            Some((b, r2)) => {
                let a2 = ((acc << 1) + (if b { 1u32 } else { 0u32 })) as u32;
                lemma_sp_direct_bits(r2, n, i + 1, a2);
                match sp_direct_bits(r2, n, i + 1, a2) {
                    None => {},
                    Some((v, r3)) => { lemma_rc_adv_trans(rc, r2, r3); }
                }
            }
        }
    }
}

pub open spec fn lens_ok(l: LenS) -> bool {
    &&& prob_ok(l.choice) && prob_ok(l.choice2)
    &&& l.low.len() == 16 && l.mid.len() == 16 && l.high.len() == 256 && probs_ok(l.high)
    &&& forall|i: int| 0 <= i < 16 ==> (#[trigger] l.low[i]).len() == 8 && probs_ok(l.low[i])
    &&& forall|i: int| 0 <= i < 16 ==> (#[trigger] l.mid[i]).len() == 8 && probs_ok(l.mid[i])
}

pub proof fn lemma_sp_len(rc: Rc, ld: LenS, ps: nat, upd: bool)
    requires rc_ok(rc), lens_ok(ld), ps < 16,
    ensures match sp_len(rc, ld, ps, upd) {
        Some((l, r2, ld2)) => rc_ok(r2) && lens_ok(ld2) && rc_lt(r2, rc) && rc_adv(rc, r2) && l < 272,
        None => true,
    },
{
    reveal(sp_len);
    lemma_pow2(3); lemma_pow2(8); lemma_pow2(0);
    lemma_sp_bit(rc, ld.choice, upd);
    match sp_bit(rc, ld.choice, upd) {
        None => {},
        Some((b1, r1, c1)) => {
            if !b1 {
                lemma_sp_tree(r1, ld.low[ps as int], 3, 0, 1, upd);
                match sp_tree(r1, ld.low[ps as int], 3, 0, 1, upd) {
                    None => {},
                    Some((m, r2, p2)) => { lemma_rc_adv_trans(rc, r1, r2); }
                }
            } else {
                lemma_sp_bit(r1, ld.choice2, upd);
                match sp_bit(r1, ld.choice2, upd) {
                    None => {},
                    Some((b2, r2, c2)) => {
                        lemma_rc_adv_trans(rc, r1, r2);
                        if !b2 {
                            lemma_sp_tree(r2, ld.mid[ps as int], 3, 0, 1, upd);
                            match sp_tree(r2, ld.mid[ps as int], 3, 0, 1, upd) {
                                None => {},
                                Some((m, r3, p3)) => { lemma_rc_adv_trans(rc, r2, r3); }
                            }
                        } else {
                            lemma_sp_tree(r2, ld.high, 8, 0, 1, upd);
                            match sp_tree(r2, ld.high, 8, 0, 1, upd) {
                                None => {},
                                Some((m, r3, p3)) => { lemma_rc_adv_trans(rc, r2, r3); }
                            }
                        }
                    }
                }
            }
        }
    }
}

pub open spec fn seqs_ok(s: Seq<Seq<u16>>, n: nat, k: nat) -> bool {
    s.len() == n && forall|i: int| 0 <= i < n ==> (#[trigger] s[i]).len() == k && probs_ok(s[i])
}

pub open spec fn lzs_ok(m: LzS) -> bool {
    &&& m.lc <= 8 && m.lp <= 4 && m.pb <= 4 && m.state < 12
    &&& seqs_ok(m.lit, pow2(m.lc + m.lp), 0x300)
    &&& seqs_ok(m.pos_slot, 4, 64)
    &&& m.align.len() == 16 && probs_ok(m.align)
    &&& m.pos_decoders.len() == 115 && probs_ok(m.pos_decoders)
    &&& m.is_match.len() == 192 && probs_ok(m.is_match)
    &&& m.is_rep.len() == 12 && probs_ok(m.is_rep)
    &&& m.is_rep_g0.len() == 12 && probs_ok(m.is_rep_g0)
    &&& m.is_rep_g1.len() == 12 && probs_ok(m.is_rep_g1)
    &&& m.is_rep_g2.len() == 12 && probs_ok(m.is_rep_g2)
    &&& m.is_rep0_long.len() == 192 && probs_ok(m.is_rep0_long)
    &&& lens_ok(m.len) && lens_ok(m.rep_len)
    &&& m.rep.len() == 4
}

pub proof fn lemma_sp_distance(rc: Rc, ps: Seq<Seq<u16>>, pd: Seq<u16>, al: Seq<u16>, len: nat, upd: bool)
    requires rc_ok(rc), seqs_ok(ps, 4, 64), pd.len() == 115, probs_ok(pd), al.len() == 16, probs_ok(al),
    ensures match sp_distance(rc, ps, pd, al, len, upd) {
        Some((d, r2, ps2, pd2, al2)) => rc_ok(r2) && rc_lt(r2, rc) && rc_adv(rc, r2)
            && seqs_ok(ps2, 4, 64) && pd2.len() == 115 && probs_ok(pd2) && al2.len() == 16 && probs_ok(al2),
        None => true,
    },
{
    reveal(sp_distance);
    lemma_pow2(6); lemma_pow2(4); lemma_pow2(0);
    let ls: nat = if len > 3 { 3 } else { len };
    lemma_sp_tree(rc, ps[ls as int], 6, 0, 1, upd);
    match sp_tree(rc, ps[ls as int], 6, 0, 1, upd) {
        None => {},
        Some((m, r1, p2)) => {
            let slot: nat = (m - 64) as nat;
            let ps2 = ps.update(ls as int, p2);
            assert(seqs_ok(ps2, 4, 64));
            if slot >= 4 {
                lemma_dist_base(slot as usize);
                let ndb: nat = ((slot / 2) - 1) as nat;
                let base: nat = (2 + slot % 2) * pow2(ndb);
                if slot < 14 {
                    lemma_sp_rev_tree(r1, pd, (base - slot) as nat, ndb, 0, 1, 0, upd);
                    match sp_rev_tree(r1, pd, (base - slot) as nat, ndb, 0, 1, 0, upd) {
                        None => {},
                        Some((v, r2, pd2)) => { lemma_rc_adv_trans(rc, r1, r2); }
                    }
                } else {
                    lemma_sp_direct_bits(r1, (ndb - 4) as nat, 0, 0);
                    match sp_direct_bits(r1, (ndb - 4) as nat, 0, 0) {
                        None => {},
                        Some((d, r2)) => {
                            lemma_rc_adv_trans(rc, r1, r2);
                            lemma_sp_rev_tree(r2, al, 0, 4, 0, 1, 0, upd);
                            match sp_rev_tree(r2, al, 0, 4, 0, 1, 0, upd) {
                                None => {},
                                Some((a, r3, al2)) => { lemma_rc_adv_trans(rc, r2, r3); }
                            }
                        }
                    }
                }
            }
        }
    }
}

pub proof fn lemma_sp_lit_plain(rc: Rc, probs: Seq<u16>, symbol: nat, upd: bool)
    requires rc_ok(rc), probs_ok(probs), probs.len() == 0x300, 1 <= symbol,
    ensures match sp_lit_plain(rc, probs, symbol, upd) {
        Some((s2, r2, p2)) => rc_ok(r2) && probs_ok(p2) && p2.len() == 0x300 && rc_le(r2, rc) && rc_adv(rc, r2)
            && (symbol < 0x100 ==> rc_lt(r2, rc) && 0x100 <= s2 < 0x200) && (symbol >= 0x100 ==> s2 == symbol),
        None => true,
    },
    decreases 0x200 - symbol
{
    if symbol >= 0x100 {
        assert(rc.inp.skip(0) =~= rc.inp);
    } else {
        lemma_sp_bit(rc, probs[symbol as int], upd);
        match sp_bit(rc, probs[symbol as int], upd) {
            None => {},
            Some((b, r2, p2)) => {
                let pr2 = probs.update(symbol as int, p2);
                assert(probs_ok(pr2));
                let s2 = 2 * symbol + (if b { 1nat } else { 0nat });
                lemma_sp_lit_plain(r2, pr2, s2, upd);
                match sp_lit_plain(r2, pr2, s2, upd) {
                    None => {},
                    Some((s3, r3, p3)) => { lemma_rc_adv_trans(rc, r2, r3); }
                }
            }
        }
    }
}

pub proof fn lemma_sp_lit_matched(rc: Rc, probs: Seq<u16>, mb: nat, symbol: nat, upd: bool)
    requires rc_ok(rc), probs_ok(probs), probs.len() == 0x300, 1 <= symbol,
    ensures match sp_lit_matched(rc, probs, mb, symbol, upd) {
        Some((s2, r2, p2)) => rc_ok(r2) && probs_ok(p2) && p2.len() == 0x300 && rc_le(r2, rc) && rc_adv(rc, r2)
            && (symbol < 0x100 ==> rc_lt(r2, rc) && 0x100 <= s2 < 0x200) && (symbol >= 0x100 ==> s2 == symbol),
        None => true,
    },
    decreases 0x200 - symbol
{
    if symbol >= 0x100 {
        assert(rc.inp.skip(0) =~= rc.inp);
    } else {
        let match_bit: nat = (mb / 128) % 2;
        let idx: nat = (1 + match_bit) * 256 + symbol;
        lemma_sp_bit(rc, probs[idx as int], upd);
        match sp_bit(rc, probs[idx as int], upd) {
            None => {},
            Some((b, r2, p2)) => {
                let bit: nat = if b { 1 } else { 0 };
                let pr2 = probs.update(idx as int, p2);
                assert(probs_ok(pr2));
                if match_bit != bit {
                    lemma_sp_lit_plain(r2, pr2, 2 * symbol + bit, upd);
                    match sp_lit_plain(r2, pr2, 2 * symbol + bit, upd) {
                        None => {},
                        Some((s3, r3, p3)) => { lemma_rc_adv_trans(rc, r2, r3); }
                    }
                } else {
                    lemma_sp_lit_matched(r2, pr2, mb * 2, 2 * symbol + bit, upd);
                    match sp_lit_matched(r2, pr2, mb * 2, 2 * symbol + bit, upd) {
                        None => {},
                        Some((s3, r3, p3)) => { lemma_rc_adv_trans(rc, r2, r3); }
                    }
                }
            }
        }
    }
}

pub proof fn lemma_sp_literal(rc: Rc, m: LzS, w: Win, upd: bool)
    requires rc_ok(rc), lzs_ok(m), w.hist <= w.out.len(),
    ensures match sp_literal(rc, m, w, upd) {
        Some((byte, r2, m2)) => rc_ok(r2) && lzs_ok(m2) && rc_lt(r2, rc) && rc_adv(rc, r2)
            && m2 == (LzS { lit: m2.lit, ..m }),
        None => true,
    },
{
    reveal(sp_literal);
    let ls = sp_lit_state(m.lc, m.lp, w.hist, win_prev(w));
    if ls < m.lit.len() {
        let probs = m.lit[ls as int];
        if m.state >= 7 {
            if dist_ok(m.rep[0] + 1, w.hist, w.maxd) {
                lemma_sp_lit_matched(rc, probs, w.out[w.out.len() - (m.rep[0] + 1)] as nat, 1, upd);
            }
        } else {
            lemma_sp_lit_plain(rc, probs, 1, upd);
        }
    }
}

pub open spec fn step_good(rc: Rc, res: Option<(StepStatus, Rc, LzS, Win)>) -> bool {
    match res {
        Some((st, r2, m2, w2)) => rc_ok(r2) && lzs_ok(m2) && rc_lt(r2, rc) && rc_adv(rc, r2),
        None => true,
    }
}

pub proof fn lemma_sp_step_replen(rc0: Rc, rc: Rc, m: LzS, w: Win, ps: nat, upd: bool)
    requires rc_ok(rc), lzs_ok(m), ps < 16, rc_le(rc, rc0), rc_adv(rc0, rc),
    ensures step_good(rc0, sp_step_replen(rc, m, w, ps, upd)),
{
    reveal(sp_step_replen);
    lemma_sp_len(rc, m.rep_len, ps, upd);
    match sp_len(rc, m.rep_len, ps, upd) {
        None => {},
        Some((l, r2, ld2)) => { lemma_rc_adv_trans(rc0, rc, r2); }
    }
}

pub proof fn lemma_sp_step_match(rc0: Rc, rc: Rc, m: LzS, w: Win, ps: nat, upd: bool)
    requires rc_ok(rc), lzs_ok(m), ps < 16, rc_le(rc, rc0), rc_adv(rc0, rc),
    ensures step_good(rc0, sp_step_match(rc, m, w, ps, upd)),
{
    reveal(sp_step_match);
    lemma_sp_len(rc, m.len, ps, upd);
    match sp_len(rc, m.len, ps, upd) {
        None => {},
        Some((l, r1, ld2)) => {
            lemma_rc_adv_trans(rc0, rc, r1);
            let m1 = LzS { len: ld2, ..m };
            lemma_sp_distance(r1, m1.pos_slot, m1.pos_decoders, m1.align, l, upd);
            match sp_distance(r1, m1.pos_slot, m1.pos_decoders, m1.align, l, upd) {
                None => {},
                Some((d, r2, ps2, pd2, al2)) => { lemma_rc_adv_trans(rc0, r1, r2); }
            }
        }
    }
}

pub proof fn lemma_sp_step_rep(rc0: Rc, rc: Rc, m: LzS, w: Win, ps: nat, upd: bool)
    requires rc_ok(rc), lzs_ok(m), ps < 16, rc_le(rc, rc0), rc_adv(rc0, rc),
    ensures step_good(rc0, sp_step_rep(rc, m, w, ps, upd)),
{
    reveal(sp_step_rep);
    let s = m.state;
    lemma_sp_bit(rc, m.is_rep_g0[s as int], upd);
    match sp_bit(rc, m.is_rep_g0[s as int], upd) {
        None => {},
        Some((b_g0, r1, p1)) => {
            lemma_rc_adv_trans(rc0, rc, r1);
            let m1 = LzS { is_rep_g0: m.is_rep_g0.update(s as int, p1), ..m };
            assert(lzs_ok(m1));
            if !b_g0 {
                let i0: nat = s * 16 + ps;
                lemma_sp_bit(r1, m1.is_rep0_long[i0 as int], upd);
                match sp_bit(r1, m1.is_rep0_long[i0 as int], upd) {
                    None => {},
                    Some((b_long, r2, p2)) => {
                        lemma_rc_adv_trans(rc0, r1, r2);
                        let m2 = LzS { is_rep0_long: m1.is_rep0_long.update(i0 as int, p2), ..m1 };
                        assert(lzs_ok(m2));
                        if b_long { lemma_sp_step_replen(rc0, r2, m2, w, ps, upd); }
                    }
                }
            } else {
                lemma_sp_bit(r1, m1.is_rep_g1[s as int], upd);
                match sp_bit(r1, m1.is_rep_g1[s as int], upd) {
                    None => {},
                    Some((b_g1, r2, p2)) => {
                        lemma_rc_adv_trans(rc0, r1, r2);
                        let m2 = LzS { is_rep_g1: m1.is_rep_g1.update(s as int, p2), ..m1 };
                        assert(lzs_ok(m2));
                        if !b_g1 {
                            let m3 = if upd { LzS { rep: seq![m.rep[1], m.rep[0], m.rep[2], m.rep[3]], ..m2 } } else { m2 };
                            lemma_sp_step_replen(rc0, r2, m3, w, ps, upd);
                        } else {
                            lemma_sp_bit(r2, m2.is_rep_g2[s as int], upd);
                            match sp_bit(r2, m2.is_rep_g2[s as int], upd) {
                                None => {},
                                Some((b_g2, r3, p3)) => {
                                    lemma_rc_adv_trans(rc0, r2, r3);
                                    let m3 = LzS { is_rep_g2: m2.is_rep_g2.update(s as int, p3), ..m2 };
                                    assert(lzs_ok(m3));
                                    let m4 = if !upd { m3 }
                                        else if !b_g2 { LzS { rep: seq![m.rep[2], m.rep[0], m.rep[1], m.rep[3]], ..m3 } }
                                        else { LzS { rep: seq![m.rep[3], m.rep[0], m.rep[1], m.rep[2]], ..m3 } };
                                    lemma_sp_step_replen(rc0, r3, m4, w, ps, upd);
                                }
                            }
                        }
                    }
                }
            }
        }
    }
}

/// one symbol: Range stays normalised, the model stays well-formed, and (input left, Range) strictly decreases
pub proof fn lemma_sp_step(rc: Rc, m: LzS, w: Win, upd: bool)
    requires rc_ok(rc), lzs_ok(m), w.hist <= w.out.len(),
    ensures step_good(rc, sp_step(rc, m, w, upd)),
{
    lemma_pow2(4); lemma_pow2_mono(m.pb, 4); lemma_pow2(m.pb);
    let pos_state: nat = w.hist % pow2(m.pb);
    assert(pos_state < 16) by (nonlinear_arith) requires pos_state == w.hist % pow2(m.pb), 1 <= pow2(m.pb) <= 16;
    let i_match: nat = m.state * 16 + pos_state;
    lemma_sp_bit(rc, m.is_match[i_match as int], upd);
    match sp_bit(rc, m.is_match[i_match as int], upd) {
        None => {},
        Some((b_match, r1, p1)) => {
            let m1 = LzS { is_match: m.is_match.update(i_match as int, p1), ..m };
            assert(lzs_ok(m1));
            if !b_match {
                lemma_sp_literal(r1, m1, w, upd);
                match sp_literal(r1, m1, w, upd) {
                    None => {},
                    Some((byte, r2, m2)) => { lemma_rc_adv_trans(rc, r1, r2); }
                }
            } else {
                lemma_sp_bit(r1, m1.is_rep[m.state as int], upd);
                match sp_bit(r1, m1.is_rep[m.state as int], upd) {
                    None => {},
                    Some((b_rep, r2, p2)) => {
                        lemma_rc_adv_trans(rc, r1, r2);
                        let m2 = LzS { is_rep: m1.is_rep.update(m.state as int, p2), ..m1 };
                        assert(lzs_ok(m2));
                        if b_rep { lemma_sp_step_rep(rc, r2, m2, w, pos_state, upd); } else { lemma_sp_step_match(rc, r2, m2, w, pos_state, upd); }
                    }
                }
            }
        }
    }
}
