// =============================================================================================
// Format specification, part 4b: locality of the symbol decoder in its input.
// A decoding function that succeeds having consumed k bytes gives the same result on EVERY input
// that agrees with the original one on its first k bytes (the bytes behind are passed through).
// These lemmas carry the streaming decoder (src/decode/stream.rs, process_mode in Partial mode):
// a symbol decoded from a look-ahead buffer is the symbol the one-shot decoder decodes from the
// whole stream.  Pure spec-level induction; nothing here is assumed.
// =============================================================================================

/// the coder registers of `rc` over another input
pub open spec fn rcw(rc: Rc, inp: Seq<u8>) -> Rc { Rc { range: rc.range, code: rc.code, inp: inp } }
/// a and b agree on their first k bytes
pub open spec fn agree(a: Seq<u8>, b: Seq<u8>, k: int) -> bool {
    0 <= k <= a.len() && k <= b.len() && forall|i: int| 0 <= i < k ==> a[i] == b[i]
}
/// bytes consumed between two coder states
pub open spec fn used(a: Rc, b: Rc) -> int { a.inp.len() - b.inp.len() }

pub proof fn lemma_agree_split(a: Seq<u8>, b: Seq<u8>, k1: int, k2: int)
    requires agree(a, b, k1 + k2), 0 <= k1, 0 <= k2,
    ensures agree(a, b, k1), agree(a.skip(k1), b.skip(k1), k2), b.skip(k1).skip(k2) == b.skip(k1 + k2),
{
    assert(b.skip(k1).skip(k2) =~= b.skip(k1 + k2));
}
pub proof fn lemma_agree_self(a: Seq<u8>, g: Seq<u8>, k: int)
    requires 0 <= k <= a.len(),
    ensures agree(a, a.take(k) + g, k), (a.take(k) + g).skip(k) == g, agree(a, a + g, k), (a + g).skip(k) == a.skip(k) + g,
{
    assert((a.take(k) + g).skip(k) =~= g);
    assert((a + g).skip(k) =~= a.skip(k) + g);
}

pub proof fn lemma_repl_normalize(rc: Rc, inp2: Seq<u8>)
    ensures match sp_normalize(rc) {
        Some(r2) => rc_adv(rc, r2) && 0 <= used(rc, r2) <= 1
            && (agree(rc.inp, inp2, used(rc, r2)) ==> sp_normalize(rcw(rc, inp2)) == Some(rcw(r2, inp2.skip(used(rc, r2))))),
        None => true,
    },
{
    if rc.range < K_TOP {
        if rc.inp.len() > 0 {
            assert(rc.inp.skip(1) =~= rc.inp.skip(rc.inp.len() - (rc.inp.len() - 1)));
        }
    } else {
        assert(rc.inp.skip(0) =~= rc.inp);
        assert(inp2.skip(0) =~= inp2);
    }
}

pub proof fn lemma_repl_bit(rc: Rc, prob: u16, upd: bool, inp2: Seq<u8>)
    ensures match sp_bit(rc, prob, upd) {
        Some((b, r2, p2)) => rc_adv(rc, r2) && 0 <= used(rc, r2) <= 1
            && (agree(rc.inp, inp2, used(rc, r2)) ==> sp_bit(rcw(rc, inp2), prob, upd) == Some((b, rcw(r2, inp2.skip(used(rc, r2))), p2))),
        None => true,
    },
{
    let bound: u32 = ((rc.range >> 11) * (prob as u32)) as u32;
    if rc.code < bound {
        lemma_repl_normalize(Rc { range: bound, code: rc.code, inp: rc.inp }, inp2);
    } else {
        lemma_repl_normalize(Rc { range: (rc.range - bound) as u32, code: (rc.code - bound) as u32, inp: rc.inp }, inp2);
    }
}

pub proof fn lemma_repl_direct_bit(rc: Rc, inp2: Seq<u8>)
    ensures match sp_direct_bit(rc) {
        Some((b, r2)) => rc_adv(rc, r2) && 0 <= used(rc, r2) <= 1
            && (agree(rc.inp, inp2, used(rc, r2)) ==> sp_direct_bit(rcw(rc, inp2)) == Some((b, rcw(r2, inp2.skip(used(rc, r2)))))),
        None => true,
    },
{
    let r: u32 = rc.range >> 1;
    if rc.code >= r {
        lemma_repl_normalize(Rc { range: r, code: (rc.code - r) as u32, inp: rc.inp }, inp2);
    } else {
        lemma_repl_normalize(Rc { range: r, code: rc.code, inp: rc.inp }, inp2);
    }
}

pub proof fn lemma_repl_direct_bits(rc: Rc, n: nat, i: nat, acc: u32, inp2: Seq<u8>)
    ensures match sp_direct_bits(rc, n, i, acc) {
        Some((v, r2)) => rc_adv(rc, r2)
            && (agree(rc.inp, inp2, used(rc, r2)) ==> sp_direct_bits(rcw(rc, inp2), n, i, acc) == Some((v, rcw(r2, inp2.skip(used(rc, r2)))))),
        None => true,
    },
    decreases n - i
{
    if i >= n {
        assert(rc.inp.skip(0) =~= rc.inp);
        assert(inp2.skip(0) =~= inp2);
    } else {
        lemma_repl_direct_bit(rc, inp2);
        match sp_direct_bit(rc) {
            None => {},
            Some((b, r1)) => {
                let k1 = used(rc, r1);
                let acc1 = ((acc << 1) + (if b { 1u32 } else { 0u32 })) as u32;
                lemma_repl_direct_bits(r1, n, i + 1, acc1, inp2.skip(k1));
                match sp_direct_bits(r1, n, i + 1, acc1) {
                    None => {},
                    Some((v, r2)) => {
                        lemma_rc_adv_trans(rc, r1, r2);
                        if agree(rc.inp, inp2, used(rc, r2)) {
                            lemma_agree_split(rc.inp, inp2, k1, used(r1, r2));
                        }
                    }
                }
            }
        }
    }
}

pub proof fn lemma_repl_tree(rc: Rc, probs: Seq<u16>, n: nat, i: nat, m: nat, upd: bool, inp2: Seq<u8>)
    ensures match sp_tree(rc, probs, n, i, m, upd) {
        Some((m2, r2, p2)) => rc_adv(rc, r2)
            && (agree(rc.inp, inp2, used(rc, r2)) ==> sp_tree(rcw(rc, inp2), probs, n, i, m, upd) == Some((m2, rcw(r2, inp2.skip(used(rc, r2))), p2))),
        None => true,
    },
    decreases n - i
{
    if i >= n {
        assert(rc.inp.skip(0) =~= rc.inp);
        assert(inp2.skip(0) =~= inp2);
    } else if m >= probs.len() {
    } else {
        lemma_repl_bit(rc, probs[m as int], upd, inp2);
        match sp_bit(rc, probs[m as int], upd) {
            None => {},
            Some((b, r1, p1)) => {
                let k1 = used(rc, r1);
                let probs1 = probs.update(m as int, p1);
                let m1 = 2 * m + (if b { 1nat } else { 0nat });
                lemma_repl_tree(r1, probs1, n, i + 1, m1, upd, inp2.skip(k1));
                match sp_tree(r1, probs1, n, i + 1, m1, upd) {
                    None => {},
                    Some((m2, r2, p2)) => {
                        lemma_rc_adv_trans(rc, r1, r2);
                        if agree(rc.inp, inp2, used(rc, r2)) {
                            lemma_agree_split(rc.inp, inp2, k1, used(r1, r2));
                        }
                    }
                }
            }
        }
    }
}

pub proof fn lemma_repl_rev_tree(rc: Rc, probs: Seq<u16>, off: nat, n: nat, i: nat, m: nat, sym: nat, upd: bool, inp2: Seq<u8>)
    ensures match sp_rev_tree(rc, probs, off, n, i, m, sym, upd) {
        Some((v, r2, p2)) => rc_adv(rc, r2)
            && (agree(rc.inp, inp2, used(rc, r2)) ==> sp_rev_tree(rcw(rc, inp2), probs, off, n, i, m, sym, upd) == Some((v, rcw(r2, inp2.skip(used(rc, r2))), p2))),
        None => true,
    },
    decreases n - i
{
    if i >= n {
        assert(rc.inp.skip(0) =~= rc.inp);
        assert(inp2.skip(0) =~= inp2);
    } else if off + m >= probs.len() {
    } else {
        lemma_repl_bit(rc, probs[(off + m) as int], upd, inp2);
        match sp_bit(rc, probs[(off + m) as int], upd) {
            None => {},
            Some((b, r1, p1)) => {
                let k1 = used(rc, r1);
                let probs1 = probs.update((off + m) as int, p1);
                let m1 = 2 * m + (if b { 1nat } else { 0nat });
                let sym1 = sym + (if b { pow2(i) } else { 0nat });
                lemma_repl_rev_tree(r1, probs1, off, n, i + 1, m1, sym1, upd, inp2.skip(k1));
                match sp_rev_tree(r1, probs1, off, n, i + 1, m1, sym1, upd) {
                    None => {},
                    Some((v, r2, p2)) => {
                        lemma_rc_adv_trans(rc, r1, r2);
                        if agree(rc.inp, inp2, used(rc, r2)) {
                            lemma_agree_split(rc.inp, inp2, k1, used(r1, r2));
                        }
                    }
                }
            }
        }
    }
}

#[verifier::rlimit(100)]
pub proof fn lemma_repl_len(rc: Rc, ld: LenS, pos_state: nat, upd: bool, inp2: Seq<u8>)
    ensures match sp_len(rc, ld, pos_state, upd) {
        Some((l, r2, ld2)) => rc_adv(rc, r2)
            && (agree(rc.inp, inp2, used(rc, r2)) ==> sp_len(rcw(rc, inp2), ld, pos_state, upd) == Some((l, rcw(r2, inp2.skip(used(rc, r2))), ld2))),
        None => true,
    },
{
    reveal(sp_len);
    lemma_repl_bit(rc, ld.choice, upd, inp2);
    match sp_bit(rc, ld.choice, upd) {
        None => {},
        Some((b1, r1, c1)) => {
            let k1 = used(rc, r1);
            let i1 = inp2.skip(k1);
            if !b1 {
                lemma_repl_tree(r1, ld.low[pos_state as int], 3, 0, 1, upd, i1);
                match sp_tree(r1, ld.low[pos_state as int], 3, 0, 1, upd) {
                    None => {},
                    Some((m, r2, p2)) => {
                        lemma_rc_adv_trans(rc, r1, r2);
                        if agree(rc.inp, inp2, used(rc, r2)) { lemma_agree_split(rc.inp, inp2, k1, used(r1, r2)); }
                    }
                }
            } else {
                lemma_repl_bit(r1, ld.choice2, upd, i1);
                match sp_bit(r1, ld.choice2, upd) {
                    None => {},
                    Some((b2, r2, c2)) => {
                        let k2 = used(r1, r2);
                        let i2 = i1.skip(k2);
                        lemma_rc_adv_trans(rc, r1, r2);
                        let probs = if !b2 { ld.mid[pos_state as int] } else { ld.high };
                        let nb: nat = if !b2 { 3 } else { 8 };
                        lemma_repl_tree(r2, probs, nb, 0, 1, upd, i2);
                        match sp_tree(r2, probs, nb, 0, 1, upd) {
                            None => {},
                            Some((m, r3, p3)) => {
                                lemma_rc_adv_trans(rc, r2, r3);
                                if agree(rc.inp, inp2, used(rc, r3)) {
                                    lemma_agree_split(rc.inp, inp2, k1, k2 + used(r2, r3));
                                    lemma_agree_split(r1.inp, i1, k2, used(r2, r3));
                                    assert(i2.skip(used(r2, r3)) =~= inp2.skip(used(rc, r3)));
                                }
                            }
                        }
                    }
                }
            }
        }
    }
}

pub proof fn lemma_repl_lit_plain(rc: Rc, probs: Seq<u16>, symbol: nat, upd: bool, inp2: Seq<u8>)
    ensures match sp_lit_plain(rc, probs, symbol, upd) {
        Some((s2, r2, p2)) => rc_adv(rc, r2)
            && (agree(rc.inp, inp2, used(rc, r2)) ==> sp_lit_plain(rcw(rc, inp2), probs, symbol, upd) == Some((s2, rcw(r2, inp2.skip(used(rc, r2))), p2))),
        None => true,
    },
    decreases 0x200 - symbol
{
    if symbol >= 0x100 || symbol == 0 {
        assert(rc.inp.skip(0) =~= rc.inp);
        assert(inp2.skip(0) =~= inp2);
    } else if symbol >= probs.len() {
    } else {
        lemma_repl_bit(rc, probs[symbol as int], upd, inp2);
        match sp_bit(rc, probs[symbol as int], upd) {
            None => {},
            Some((b, r1, p1)) => {
                let k1 = used(rc, r1);
                let probs1 = probs.update(symbol as int, p1);
                let s1 = 2 * symbol + (if b { 1nat } else { 0nat });
                lemma_repl_lit_plain(r1, probs1, s1, upd, inp2.skip(k1));
                match sp_lit_plain(r1, probs1, s1, upd) {
                    None => {},
                    Some((s2, r2, p2)) => {
                        lemma_rc_adv_trans(rc, r1, r2);
                        if agree(rc.inp, inp2, used(rc, r2)) { lemma_agree_split(rc.inp, inp2, k1, used(r1, r2)); }
                    }
                }
            }
        }
    }
}

pub proof fn lemma_repl_lit_matched(rc: Rc, probs: Seq<u16>, match_byte: nat, symbol: nat, upd: bool, inp2: Seq<u8>)
    ensures match sp_lit_matched(rc, probs, match_byte, symbol, upd) {
        Some((s2, r2, p2)) => rc_adv(rc, r2)
            && (agree(rc.inp, inp2, used(rc, r2)) ==> sp_lit_matched(rcw(rc, inp2), probs, match_byte, symbol, upd) == Some((s2, rcw(r2, inp2.skip(used(rc, r2))), p2))),
        None => true,
    },
    decreases 0x200 - symbol
{
    if symbol >= 0x100 || symbol == 0 {
        assert(rc.inp.skip(0) =~= rc.inp);
        assert(inp2.skip(0) =~= inp2);
    } else {
        let match_bit: nat = (match_byte / 128) % 2;
        let idx: nat = (1 + match_bit) * 256 + symbol;
        if idx >= probs.len() {
        } else {
            lemma_repl_bit(rc, probs[idx as int], upd, inp2);
            match sp_bit(rc, probs[idx as int], upd) {
                None => {},
                Some((b, r1, p1)) => {
                    let k1 = used(rc, r1);
                    let bit: nat = if b { 1 } else { 0 };
                    let probs1 = probs.update(idx as int, p1);
                    if match_bit != bit {
                        lemma_repl_lit_plain(r1, probs1, 2 * symbol + bit, upd, inp2.skip(k1));
                        match sp_lit_plain(r1, probs1, 2 * symbol + bit, upd) {
                            None => {},
                            Some((s2, r2, p2)) => {
                                lemma_rc_adv_trans(rc, r1, r2);
                                if agree(rc.inp, inp2, used(rc, r2)) { lemma_agree_split(rc.inp, inp2, k1, used(r1, r2)); }
                            }
                        }
                    } else {
                        lemma_repl_lit_matched(r1, probs1, match_byte * 2, 2 * symbol + bit, upd, inp2.skip(k1));
                        match sp_lit_matched(r1, probs1, match_byte * 2, 2 * symbol + bit, upd) {
                            None => {},
                            Some((s2, r2, p2)) => {
                                lemma_rc_adv_trans(rc, r1, r2);
                                if agree(rc.inp, inp2, used(rc, r2)) { lemma_agree_split(rc.inp, inp2, k1, used(r1, r2)); }
                            }
                        }
                    }
                }
            }
        }
    }
}

pub proof fn lemma_repl_literal(rc: Rc, m: LzS, w: Win, upd: bool, inp2: Seq<u8>)
    ensures match sp_literal(rc, m, w, upd) {
        Some((byte, r2, m2)) => rc_adv(rc, r2)
            && (agree(rc.inp, inp2, used(rc, r2)) ==> sp_literal(rcw(rc, inp2), m, w, upd) == Some((byte, rcw(r2, inp2.skip(used(rc, r2))), m2))),
        None => true,
    },
{
    reveal(sp_literal);
    let ls = sp_lit_state(m.lc, m.lp, w.hist, win_prev(w));
    if ls < m.lit.len() {
        let probs = m.lit[ls as int];
        if m.state >= 7 {
            if dist_ok(m.rep[0] + 1, w.hist, w.maxd) {
                lemma_repl_lit_matched(rc, probs, w.out[w.out.len() - (m.rep[0] + 1)] as nat, 1, upd, inp2);
            }
        } else {
            lemma_repl_lit_plain(rc, probs, 1, upd, inp2);
        }
    }
}

#[verifier::rlimit(100)]
pub proof fn lemma_repl_distance(rc: Rc, pos_slot: Seq<Seq<u16>>, pos_decoders: Seq<u16>, align: Seq<u16>, len: nat, upd: bool, inp2: Seq<u8>)
    ensures match sp_distance(rc, pos_slot, pos_decoders, align, len, upd) {
        Some((d, r2, ps2, pd2, al2)) => rc_adv(rc, r2)
            && (agree(rc.inp, inp2, used(rc, r2)) ==> sp_distance(rcw(rc, inp2), pos_slot, pos_decoders, align, len, upd)
                    == Some((d, rcw(r2, inp2.skip(used(rc, r2))), ps2, pd2, al2))),
        None => true,
    },
{
    hide(sp_bit);
    reveal(sp_distance);
    let len_state: nat = if len > 3 { 3 } else { len };
    lemma_repl_tree(rc, pos_slot[len_state as int], 6, 0, 1, upd, inp2);
    match sp_tree(rc, pos_slot[len_state as int], 6, 0, 1, upd) {
        None => {},
        Some((mm, r1, ps2)) => {
            let k1 = used(rc, r1);
            let i1 = inp2.skip(k1);
            let slot: nat = (mm - 64) as nat;
            if slot < 4 {
            } else {
                let ndb: nat = ((slot / 2) - 1) as nat;
                let base: nat = (2 + slot % 2) * pow2(ndb);
                if slot < 14 {
                    lemma_repl_rev_tree(r1, pos_decoders, (base - slot) as nat, ndb, 0, 1, 0, upd, i1);
                    match sp_rev_tree(r1, pos_decoders, (base - slot) as nat, ndb, 0, 1, 0, upd) {
                        None => {},
                        Some((v, r2, pd2)) => {
                            lemma_rc_adv_trans(rc, r1, r2);
                            if agree(rc.inp, inp2, used(rc, r2)) { lemma_agree_split(rc.inp, inp2, k1, used(r1, r2)); }
                        }
                    }
                } else {
                    lemma_repl_direct_bits(r1, (ndb - 4) as nat, 0, 0, i1);
                    match sp_direct_bits(r1, (ndb - 4) as nat, 0, 0) {
                        None => {},
                        Some((d, r2)) => {
                            let k2 = used(r1, r2);
                            let i2 = i1.skip(k2);
                            lemma_rc_adv_trans(rc, r1, r2);
                            lemma_repl_rev_tree(r2, align, 0, 4, 0, 1, 0, upd, i2);
                            match sp_rev_tree(r2, align, 0, 4, 0, 1, 0, upd) {
                                None => {},
                                Some((a, r3, al2)) => {
                                    lemma_rc_adv_trans(rc, r2, r3);
                                    if agree(rc.inp, inp2, used(rc, r3)) {
                                        lemma_agree_split(rc.inp, inp2, k1, k2 + used(r2, r3));
                                        lemma_agree_split(r1.inp, i1, k2, used(r2, r3));
                                        assert(i2.skip(used(r2, r3)) =~= inp2.skip(used(rc, r3)));
                                    }
                                }
                            }
                        }
                    }
                }
            }
        }
    }
}

/// what a step result becomes when the input behind the consumed bytes is replaced: the same, except
/// that an end marker is only legal when nothing follows it
pub open spec fn step_over(res: (StepStatus, Rc, LzS, Win), rc: Rc, inp2: Seq<u8>) -> Option<(StepStatus, Rc, LzS, Win)> {
    let k = used(rc, res.1);
    if res.0 is Finished && inp2.len() > k { None } else { Some((res.0, rcw(res.1, inp2.skip(k)), res.2, res.3)) }
}

pub proof fn lemma_repl_step_replen(rc: Rc, m: LzS, w: Win, pos_state: nat, upd: bool, inp2: Seq<u8>)
    ensures match sp_step_replen(rc, m, w, pos_state, upd) {
        Some(res) => rc_adv(rc, res.1) && res.0 is Continue
            && (agree(rc.inp, inp2, used(rc, res.1)) ==> sp_step_replen(rcw(rc, inp2), m, w, pos_state, upd) == step_over(res, rc, inp2)),
        None => true,
    },
{
    reveal(sp_step_replen);
    lemma_repl_len(rc, m.rep_len, pos_state, upd, inp2);
}

pub proof fn lemma_repl_step_match(rc: Rc, m: LzS, w: Win, pos_state: nat, upd: bool, inp2: Seq<u8>)
    ensures match sp_step_match(rc, m, w, pos_state, upd) {
        Some(res) => rc_adv(rc, res.1) && (res.0 is Finished ==> res.1.inp.len() == 0 && res.1.code == 0 && upd)
            && (agree(rc.inp, inp2, used(rc, res.1)) ==> sp_step_match(rcw(rc, inp2), m, w, pos_state, upd) == step_over(res, rc, inp2)),
        None => true,
    },
{
    reveal(sp_step_match);
    lemma_repl_len(rc, m.len, pos_state, upd, inp2);
    match sp_len(rc, m.len, pos_state, upd) {
        None => {},
        Some((l, r1, ld2)) => {
            let k1 = used(rc, r1);
            let i1 = inp2.skip(k1);
            let m1 = LzS { len: ld2, ..m };
            lemma_repl_distance(r1, m1.pos_slot, m1.pos_decoders, m1.align, l, upd, i1);
            match sp_distance(r1, m1.pos_slot, m1.pos_decoders, m1.align, l, upd) {
                None => {},
                Some((d, r2, ps2, pd2, al2)) => {
                    lemma_rc_adv_trans(rc, r1, r2);
                    if agree(rc.inp, inp2, used(rc, r2)) {
                        lemma_agree_split(rc.inp, inp2, k1, used(r1, r2));
                        assert(i1.skip(used(r1, r2)).len() == inp2.len() - used(rc, r2));
                    }
                }
            }
        }
    }
}

#[verifier::rlimit(100)]
pub proof fn lemma_repl_step_rep(rc: Rc, m: LzS, w: Win, pos_state: nat, upd: bool, inp2: Seq<u8>)
    ensures match sp_step_rep(rc, m, w, pos_state, upd) {
        Some(res) => rc_adv(rc, res.1) && res.0 is Continue
            && (agree(rc.inp, inp2, used(rc, res.1)) ==> sp_step_rep(rcw(rc, inp2), m, w, pos_state, upd) == step_over(res, rc, inp2)),
        None => true,
    },
{
    hide(sp_bit);
    reveal(sp_step_rep);
    let s = m.state;
    lemma_repl_bit(rc, m.is_rep_g0[s as int], upd, inp2);
    match sp_bit(rc, m.is_rep_g0[s as int], upd) {
        None => {},
        Some((b_g0, r1, p1)) => {
            let k1 = used(rc, r1);
            let i1 = inp2.skip(k1);
            let m1 = LzS { is_rep_g0: m.is_rep_g0.update(s as int, p1), ..m };
            if !b_g0 {
                let i0: nat = s * 16 + pos_state;
                lemma_repl_bit(r1, m1.is_rep0_long[i0 as int], upd, i1);
                match sp_bit(r1, m1.is_rep0_long[i0 as int], upd) {
                    None => {},
                    Some((b_long, r2, p2)) => {
                        let k2 = used(r1, r2);
                        let i2 = i1.skip(k2);
                        lemma_rc_adv_trans(rc, r1, r2);
                        let m2 = LzS { is_rep0_long: m1.is_rep0_long.update(i0 as int, p2), ..m1 };
                        if !b_long {
                            if agree(rc.inp, inp2, used(rc, r2)) { lemma_agree_split(rc.inp, inp2, k1, k2); }
                        } else {
                            lemma_repl_step_replen(r2, m2, w, pos_state, upd, i2);
                            match sp_step_replen(r2, m2, w, pos_state, upd) {
                                None => {},
                                Some(res) => {
                                    lemma_rc_adv_trans(rc, r2, res.1);
                                    if agree(rc.inp, inp2, used(rc, res.1)) {
                                        lemma_agree_split(rc.inp, inp2, k1, k2 + used(r2, res.1));
                                        lemma_agree_split(r1.inp, i1, k2, used(r2, res.1));
                                        assert(i2.skip(used(r2, res.1)) =~= inp2.skip(used(rc, res.1)));
                                    }
                                }
                            }
                        }
                    }
                }
            } else {
                lemma_repl_bit(r1, m1.is_rep_g1[s as int], upd, i1);
                match sp_bit(r1, m1.is_rep_g1[s as int], upd) {
                    None => {},
                    Some((b_g1, r2, p2)) => {
                        let k2 = used(r1, r2);
                        let i2 = i1.skip(k2);
                        lemma_rc_adv_trans(rc, r1, r2);
                        let m2 = LzS { is_rep_g1: m1.is_rep_g1.update(s as int, p2), ..m1 };
                        if !b_g1 {
                            let m3 = if upd { LzS { rep: seq![m.rep[1], m.rep[0], m.rep[2], m.rep[3]], ..m2 } } else { m2 };
                            lemma_repl_step_replen(r2, m3, w, pos_state, upd, i2);
                            match sp_step_replen(r2, m3, w, pos_state, upd) {
                                None => {},
                                Some(res) => {
                                    lemma_rc_adv_trans(rc, r2, res.1);
                                    if agree(rc.inp, inp2, used(rc, res.1)) {
                                        lemma_agree_split(rc.inp, inp2, k1, k2 + used(r2, res.1));
                                        lemma_agree_split(r1.inp, i1, k2, used(r2, res.1));
                                        assert(i2.skip(used(r2, res.1)) =~= inp2.skip(used(rc, res.1)));
                                    }
                                }
                            }
                        } else {
                            lemma_repl_bit(r2, m2.is_rep_g2[s as int], upd, i2);
                            match sp_bit(r2, m2.is_rep_g2[s as int], upd) {
                                None => {},
                                Some((b_g2, r3, p3)) => {
                                    let k3 = used(r2, r3);
                                    let i3 = i2.skip(k3);
                                    lemma_rc_adv_trans(rc, r2, r3);
                                    let m3 = LzS { is_rep_g2: m2.is_rep_g2.update(s as int, p3), ..m2 };
                                    let m4 = if !upd { m3 }
                                        else if !b_g2 { LzS { rep: seq![m.rep[2], m.rep[0], m.rep[1], m.rep[3]], ..m3 } }
                                        else { LzS { rep: seq![m.rep[3], m.rep[0], m.rep[1], m.rep[2]], ..m3 } };
                                    lemma_repl_step_replen(r3, m4, w, pos_state, upd, i3);
                                    match sp_step_replen(r3, m4, w, pos_state, upd) {
                                        None => {},
                                        Some(res) => {
                                            lemma_rc_adv_trans(rc, r3, res.1);
                                            if agree(rc.inp, inp2, used(rc, res.1)) {
                                                lemma_agree_split(rc.inp, inp2, k1, k2 + k3 + used(r3, res.1));
                                                lemma_agree_split(r1.inp, i1, k2, k3 + used(r3, res.1));
                                                lemma_agree_split(r2.inp, i2, k3, used(r3, res.1));
                                                assert(i3.skip(used(r3, res.1)) =~= inp2.skip(used(rc, res.1)));
                                            }
                                        }
                                    }
                                }
                            }
                        }
                    }
                }
            }
        }
    }
}

pub proof fn lemma_repl_step(rc: Rc, m: LzS, w: Win, upd: bool, inp2: Seq<u8>)
    ensures match sp_step(rc, m, w, upd) {
        Some(res) => rc_adv(rc, res.1) && (res.0 is Finished ==> res.1.inp.len() == 0 && res.1.code == 0 && upd)
            && (agree(rc.inp, inp2, used(rc, res.1)) ==> sp_step(rcw(rc, inp2), m, w, upd) == step_over(res, rc, inp2)),
        None => true,
    },
{
    hide(sp_bit);
    let pos_state: nat = w.hist % pow2(m.pb);
    let i_match: nat = m.state * 16 + pos_state;
    lemma_repl_bit(rc, m.is_match[i_match as int], upd, inp2);
    match sp_bit(rc, m.is_match[i_match as int], upd) {
        None => {},
        Some((b_match, r1, p1)) => {
            let k1 = used(rc, r1);
            let i1 = inp2.skip(k1);
            let m1 = LzS { is_match: m.is_match.update(i_match as int, p1), ..m };
            if !b_match {
                lemma_repl_literal(r1, m1, w, upd, i1);
                match sp_literal(r1, m1, w, upd) {
                    None => {},
                    Some((byte, r2, m2)) => {
                        lemma_rc_adv_trans(rc, r1, r2);
                        if agree(rc.inp, inp2, used(rc, r2)) { lemma_agree_split(rc.inp, inp2, k1, used(r1, r2)); }
                    }
                }
            } else {
                lemma_repl_bit(r1, m1.is_rep[m.state as int], upd, i1);
                match sp_bit(r1, m1.is_rep[m.state as int], upd) {
                    None => {},
                    Some((b_rep, r2, p2)) => {
                        let k2 = used(r1, r2);
                        let i2 = i1.skip(k2);
                        lemma_rc_adv_trans(rc, r1, r2);
                        let m2 = LzS { is_rep: m1.is_rep.update(m.state as int, p2), ..m1 };
                        if b_rep {
                            lemma_repl_step_rep(r2, m2, w, pos_state, upd, i2);
                            match sp_step_rep(r2, m2, w, pos_state, upd) {
                                None => {},
                                Some(res) => {
                                    lemma_rc_adv_trans(rc, r2, res.1);
                                    if agree(rc.inp, inp2, used(rc, res.1)) {
                                        lemma_agree_split(rc.inp, inp2, k1, k2 + used(r2, res.1));
                                        lemma_agree_split(r1.inp, i1, k2, used(r2, res.1));
                                        assert(i2.skip(used(r2, res.1)) =~= inp2.skip(used(rc, res.1)));
                                    }
                                }
                            }
                        } else {
                            lemma_repl_step_match(r2, m2, w, pos_state, upd, i2);
                            match sp_step_match(r2, m2, w, pos_state, upd) {
                                None => {},
                                Some(res) => {
                                    lemma_rc_adv_trans(rc, r2, res.1);
                                    if agree(rc.inp, inp2, used(rc, res.1)) {
                                        lemma_agree_split(rc.inp, inp2, k1, k2 + used(r2, res.1));
                                        lemma_agree_split(r1.inp, i1, k2, used(r2, res.1));
                                        assert(i2.skip(used(r2, res.1)) =~= inp2.skip(used(rc, res.1)));
                                        assert(i2.len() == inp2.len() - k1 - k2);
                                    }
                                }
                            }
                        }
                    }
                }
            }
        }
    }
}
