// =============================================================================================
// Format specification, part 6: the .xz container (xz-file-format-1.1.0.txt), supported subset:
// one stream, no stream padding, check None / CRC32 / CRC64, one LZMA2 filter per block.
// CRC32 / CRC64 are the uninterpreted functions crate::crc::crc32_of / crc64_of.
// =============================================================================================
pub use crate::crc::{crc32_of, crc64_of};

pub open spec fn xz_magic() -> Seq<u8> { seq![0xFDu8, 0x37u8, 0x7Au8, 0x58u8, 0x5Au8, 0x00u8] }
pub open spec fn xz_footer_magic() -> Seq<u8> { seq![0x59u8, 0x5Au8] }

/// 1.2 Multibyte integers: little-endian base-128, at most 9 bytes, high bit = continuation.
/// Returns (value, bytes used).
pub open spec fn sp_multibyte(s: Seq<u8>, i: nat, acc: nat) -> Option<(nat, nat)>
    decreases 9 - i
{
    if i >= 9 || i >= s.len() { None }
    else {
        let b = s[i as int];
        let acc2 = acc + ((b % 128) as nat) * pow2(7 * i);
        if b < 128 { Some((acc2, i + 1)) } else { sp_multibyte(s, i + 1, acc2) }
    }
}

/// padding to a multiple of four
pub open spec fn sp_pad4(n: nat) -> nat { ((4 - n % 4) % 4) as nat }

/// 2.1.1.2 Stream Flags: first byte 0x00; second byte: bits 0-3 check type, bits 4-7 reserved (must be 0).
/// Supported check types: 0x00 None, 0x01 CRC32, 0x04 CRC64 (0x0A SHA-256 is recognised but unsupported).
pub open spec fn sp_check_known(id: u8) -> bool { id == 0x00 || id == 0x01 || id == 0x04 || id == 0x0A }
pub open spec fn sp_check_supported(id: u8) -> bool { id == 0x00 || id == 0x01 || id == 0x04 }
pub open spec fn sp_check_size(id: u8) -> nat { if id == 0x01 { 4 } else if id == 0x04 { 8 } else { 0 } }

pub proof fn lemma_mb_step(r: u64, b: u8, i: nat)
    requires i <= 8, r < pow2(7 * i),
    ensures ({
        let sh: u64 = (7 * i) as u64;
        let t: u64 = ((b & 0x7F) as u64) << sh;
        &&& (b & 0x7F) == b % 128
        &&& ((b & 0x80) == 0) == (b < 128)
        &&& (r ^ t) == r + ((b % 128) as nat) * pow2(7 * i)
        &&& (r ^ t) < pow2(7 * (i + 1))
    }),
{
    let sh: u64 = (7 * i) as u64;
    let lo: u64 = (b & 0x7F) as u64;
    let t: u64 = lo << sh;
    let p: u64 = 1u64 << sh;
    lemma_shl64(7 * i);
    lemma_shl64(7 * (i + 1));
    assert((b & 0x7F) == b % 128 && ((b & 0x80) == 0) == (b < 128)) by (bit_vector);
    assert(t == lo * p && (r ^ t) == r + t && (r ^ t) < (p << 7u64) && (p << 7u64) == (1u64 << ((sh + 7) as u64))) by (bit_vector)
        requires sh <= 56, lo < 128, t == lo << sh, p == 1u64 << sh, r < p;
}
