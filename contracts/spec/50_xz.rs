// =============================================================================================
// Format specification, part 6: the .xz container (xz-file-format-1.1.0.txt), supported subset:
// one stream, no stream padding, check None / CRC32 / CRC64, one LZMA2 filter per block.
// CRC32 / CRC64 are the uninterpreted functions crate::crc::crc32_of / crc64_of.
// =============================================================================================
pub use crate::crc::{crc32_of, crc64_of};

pub open spec fn xz_magic() -> Seq<u8> { seq![0xFDu8, 0x37u8, 0x7Au8, 0x58u8, 0x5Au8, 0x00u8] }
pub open spec fn xz_footer_magic() -> Seq<u8> { seq![0x59u8, 0x5Au8] }

/// 1.2 Multibyte integers: little-endian base-128, at most 9 bytes, high bit = continuation.
/// Returns (value, bytes used).
pub open spec fn sp_multibyte(s: Seq<u8>, i: nat, acc: nat) -> Option<(nat, nat)>
    decreases 9 - i
{
    if i >= 9 || i >= s.len() { None }
    else {
        let b = s[i as int];
        let acc2 = acc + ((b % 128) as nat) * pow2(7 * i);
        if b < 128 { Some((acc2, i + 1)) } else { sp_multibyte(s, i + 1, acc2) }
    }
}

/// padding to a multiple of four
pub open spec fn sp_pad4(n: nat) -> nat { ((4 - n % 4) % 4) as nat }

/// 2.1.1.2 Stream Flags: first byte 0x00; second byte: bits 0-3 check type, bits 4-7 reserved (must be 0).
/// Supported check types: 0x00 None, 0x01 CRC32, 0x04 CRC64 (0x0A SHA-256 is recognised but unsupported).
pub open spec fn sp_check_known(id: u8) -> bool { id == 0x00 || id == 0x01 || id == 0x04 || id == 0x0A }
pub open spec fn sp_check_supported(id: u8) -> bool { id == 0x00 || id == 0x01 || id == 0x04 }
pub open spec fn sp_check_size(id: u8) -> nat { if id == 0x01 { 4 } else if id == 0x04 { 8 } else { 0 } }

pub proof fn lemma_mb_step(r: u64, b: u8, i: nat)
    requires i <= 8, r < pow2(7 * i),
    ensures ({
        let sh: u64 = (7 * i) as u64;
        let t: u64 = ((b & 0x7F) as u64) << sh;
        &&& (b & 0x7F) == b % 128
        &&& ((b & 0x80) == 0) == (b < 128)
        &&& (r ^ t) == r + ((b % 128) as nat) * pow2(7 * i)
        &&& (r ^ t) < pow2(7 * (i + 1))
        // the three ways of writing the accumulation are the same here (the new group lies above every bit of r)
        &&& (r | t) == (r ^ t)
        &&& t == ((b % 128) as nat) * pow2(7 * i)
    }),
{
    let sh: u64 = (7 * i) as u64;
    let lo: u64 = (b & 0x7F) as u64;
    let t: u64 = lo << sh;
    let p: u64 = 1u64 << sh;
    lemma_shl64(7 * i);
    lemma_shl64(7 * (i + 1));
    assert((b & 0x7F) == b % 128 && ((b & 0x80) == 0) == (b < 128)) by (bit_vector);
    assert(t == lo * p && (r ^ t) == r + t && (r | t) == (r ^ t) && (r ^ t) < (p << 7u64) && (p << 7u64) == (1u64 << ((sh + 7) as u64))) by (bit_vector)
        requires sh <= 56, lo < 128, t == lo << sh, p == 1u64 << sh, r < p;
}

// ---- 3.1 Block Header (the bytes after the size byte, CRC32 excluded) ---------------------------
pub struct FilterS { pub id: nat, pub props: Seq<u8> }
pub struct BlockHdrS { pub packed: Option<nat>, pub unpacked: Option<nat>, pub filters: Seq<FilterS> }

/// filter flags: id (multibyte), size of properties (multibyte), properties.  Only LZMA2 (0x21) is supported.
pub open spec fn sp_filters(s: Seq<u8>, k: nat, header_size: nat) -> Option<(Seq<FilterS>, nat)>
    decreases k
{
    if k == 0 { Some((Seq::<FilterS>::empty(), 0nat)) }
    else {
        match sp_multibyte(s, 0, 0) {
            None => None,
            Some((id, n1)) => {
                if id != 0x21 { None } else {
                match sp_multibyte(s.skip(n1 as int), 0, 0) {
                    None => None,
                    Some((psz, n2)) => {
                        if psz > header_size || s.len() < n1 + n2 + psz { None }
                        else {
                            let f = FilterS { id: id, props: s.subrange((n1 + n2) as int, (n1 + n2 + psz) as int) };
                            match sp_filters(s.skip((n1 + n2 + psz) as int), (k - 1) as nat, header_size) {
                                None => None,
                                Some((fs, used)) => Some((seq![f] + fs, n1 + n2 + psz + used)),
                            }
                        }
                    }
                }}
            }
        }
    }
}

pub open spec fn all_zero(s: Seq<u8>) -> bool { forall|i: int| 0 <= i < s.len() ==> s[i] == 0u8 }

/// flags byte and the two optional size fields: (number of filters, packed, unpacked, bytes used)
pub open spec fn sp_bh_prefix(s: Seq<u8>) -> Option<(nat, Option<nat>, Option<nat>, nat)> {
    if s.len() < 1 { None }
    else {
        let flags = s[0];
        if (flags / 4) % 16 != 0 { None }     // reserved bits 2-5
        else {
            let nf: nat = (flags % 4) as nat + 1;
            let has_p = (flags / 64) % 2 == 1;
            let has_u = flags >= 128;
            let p1 = if has_p { sp_multibyte(s.skip(1), 0, 0) } else { Some((0nat, 0nat)) };
            match p1 {
                None => None,
                Some((pk, n1)) => {
                    let p2 = if has_u { sp_multibyte(s.skip(1 + n1 as int), 0, 0) } else { Some((0nat, 0nat)) };
                    match p2 {
                        None => None,
                        Some((up, n2)) => Some((nf, if has_p { Some(pk) } else { None }, if has_u { Some(up) } else { None }, 1 + n1 + n2)),
                    }
                }
            }
        }
    }
}
/// filters, then zero padding to the end of the header
pub open spec fn sp_bh_finish(packed: Option<nat>, unpacked: Option<nat>, sf: Seq<u8>, nf: nat, header_size: nat) -> Option<BlockHdrS> {
    match sp_filters(sf, nf, header_size) {
        None => None,
        Some((fs, used)) => if used <= sf.len() && all_zero(sf.skip(used as int)) { Some(BlockHdrS { packed: packed, unpacked: unpacked, filters: fs }) } else { None },
    }
}
/// `s` = the whole header after the size byte (header_size = real size - 5 bytes).
pub open spec fn sp_block_header(s: Seq<u8>, header_size: nat) -> Option<BlockHdrS> {
    match sp_bh_prefix(s) {
        None => None,
        Some((nf, pk, up, off)) => if off <= s.len() { sp_bh_finish(pk, up, s.skip(off as int), nf, header_size) } else { None },
    }
}

// ---- 4 Index ------------------------------------------------------------------------------------
pub struct RecS { pub unpadded: nat, pub unpacked: nat }

/// the Record list: for each block, Unpadded Size and Uncompressed Size as multibyte integers
pub open spec fn sp_index_records(s: Seq<u8>, recs: Seq<RecS>, i: nat) -> Option<nat>
    decreases recs.len() - i
{
    if i >= recs.len() { Some(0nat) }
    else {
        match sp_multibyte(s, 0, 0) {
            None => None,
            Some((a, n1)) => if a != recs[i as int].unpadded { None } else {
                match sp_multibyte(s.skip(n1 as int), 0, 0) {
                    None => None,
                    Some((b, n2)) => if b != recs[i as int].unpacked { None } else {
                        match sp_index_records(s.skip((n1 + n2) as int), recs, i + 1) {
                            None => None,
                            Some(used) => Some(n1 + n2 + used),
                        }
                    },
                }
            },
        }
    }
}

/// `s` starts right after the Index Indicator (0x00); `c0` bytes of the Index were read before (1).
/// Returns the number of bytes of `s` that make up the rest of the Index (fields, padding, CRC32).
pub open spec fn sp_xz_index(s: Seq<u8>, recs: Seq<RecS>, c0: nat) -> Option<nat> {
    match sp_multibyte(s, 0, 0) {
        None => None,
        Some((n, k0)) => if n != recs.len() { None } else {
            match sp_index_records(s.skip(k0 as int), recs, 0) {
                None => None,
                Some(used) => {
                    let body = k0 + used;
                    let pad = sp_pad4(c0 + body);
                    if s.len() < body + pad + 4 || !all_zero(s.subrange(body as int, (body + pad) as int)) { None }
                    else if le32(s.skip((body + pad) as int)) != crc32_of(seq![0u8] + s.take((body + pad) as int)) { None }
                    else { Some(body + pad + 4) }
                }
            }
        },
    }
}

pub proof fn lemma_pad4(count: usize)
    requires count < 0xFFFF_FFFF_FFFF_FFF0,
    ensures ((((count ^ 0x03) + 1) as usize) & 0x03) == sp_pad4(count as nat), (count ^ 0x03) + 1 <= usize::MAX,
        ((((count ^ 0x03) + 1) as usize) & 0x03) <= 3,
{
    let x: usize = count ^ 0x03;
    assert(x < 0xFFFF_FFFF_FFFF_FFF4usize) by (bit_vector) requires x == count ^ 0x03, count < 0xFFFF_FFFF_FFFF_FFF0usize;
    let y: usize = (x + 1) as usize;
    assert((y & 0x03) == (4 - count % 4) % 4 && (y & 0x03) <= 3) by (bit_vector)
        requires x == count ^ 0x03, y == x + 1, count < 0xFFFF_FFFF_FFFF_FFF0usize;
}

// ---- 3 Block -----------------------------------------------------------------------------------------
pub enum BlockRes {
    Bad,                                                   // malformed / failed integrity check: must be rejected
    Unspec,                                                // more than one filter: outside the supported subset, unspecified here
    Good { used: nat, out: Seq<u8>, unpadded: nat },     // bytes of `s` consumed, decoded data, Unpadded Size
}

/// `hsb` is the (non-zero) Block Header Size byte, `rem` the bytes that follow it.  `check` is the
/// stream's check type.  `used` counts bytes of `rem`; `unpadded` is the Unpadded Size (size byte included).
#[verifier::opaque]
pub open spec fn sp_xz_block(hsb: u8, rem: Seq<u8>, check: u8) -> BlockRes {
    if hsb == 0 { BlockRes::Bad }
    else {
        let hs: nat = ((hsb as nat) * 4 - 1) as nat;     // header bytes after the size byte, CRC32 excluded
        if rem.len() < hs + 4 { BlockRes::Bad }
        else {
            match sp_block_header(rem.take(hs as int), hs) {
                None => BlockRes::Bad,
                Some(bh) => {
                    if le32(rem.skip(hs as int)) != crc32_of(seq![hsb] + rem.take(hs as int)) { BlockRes::Bad }
                    else if bh.filters.len() != 1 { BlockRes::Unspec }
                    else if bh.filters[0].props.len() != 1 { BlockRes::Bad }
                    else {
                        let off: nat = hs + 4;
                        match sp_lzma2(rem.skip(off as int), fresh_model(0, 0, 0), Win { out: Seq::<u8>::empty(), hist: 0, maxd: usize::MAX as nat }) {
                            None => BlockRes::Bad,
                            Some((k, m3, w3)) => {
                                if bh.packed is Some && bh.packed.unwrap() != k { BlockRes::Bad }
                                else if bh.unpacked is Some && bh.unpacked.unwrap() != w3.out.len() { BlockRes::Bad }
                                else {
                                    let pos = off + k;
                                    let pad = sp_pad4(1 + pos);
                                    let cs = sp_check_size(check);
                                    if rem.len() < pos + pad + cs || !all_zero(rem.subrange(pos as int, (pos + pad) as int)) { BlockRes::Bad }
                                    else if !sp_check_supported(check) { BlockRes::Bad }
                                    else if check == 0x01 && le32(rem.skip((pos + pad) as int)) != crc32_of(w3.out) { BlockRes::Bad }
                                    else if check == 0x04 && le64(rem.skip((pos + pad) as int)) != crc64_of(w3.out) { BlockRes::Bad }
                                    else { BlockRes::Good { used: pos + pad + cs, out: w3.out, unpadded: 1 + pos + cs } }
                                }
                            }
                        }
                    }
                }
            }
        }
    }
}

// ---- 2 Stream -------------------------------------------------------------------------------------------
pub enum BlocksRes { Bad, Unspec, Good { used: nat, out: Seq<u8>, recs: Seq<RecS> } }

/// the Blocks up to (not including) the Index Indicator byte 0x00.  `recs` / `out` accumulate.
pub open spec fn sp_xz_blocks(s: Seq<u8>, check: u8, recs: Seq<RecS>, out: Seq<u8>, used0: nat) -> BlocksRes
    decreases s.len()
{
    if s.len() == 0 { BlocksRes::Bad }
    else if s[0] == 0 { BlocksRes::Good { used: used0, out: out, recs: recs } }
    else {
        match sp_xz_block(s[0], s.skip(1), check) {
            BlockRes::Bad => BlocksRes::Bad,
            BlockRes::Unspec => BlocksRes::Unspec,
            BlockRes::Good { used, out: o, unpadded } =>
                if used + 1 > s.len() { BlocksRes::Bad } else {
                sp_xz_blocks(s.skip(1 + used as int), check, recs.push(RecS { unpadded: unpadded, unpacked: o.len() }), out + o, used0 + 1 + used) },
        }
    }
}

pub enum XzRes { Bad, Unspec, Good { out: Seq<u8> } }

/// 2.1.1 Stream Header (12 bytes)
pub open spec fn sp_xz_header_ok(f: Seq<u8>) -> bool {
    f.len() >= 12 && f.take(6) == xz_magic() && f[6] == 0 && sp_check_known(f[7])
        && le32(f.skip(8)) == crc32_of(f.subrange(6, 8))
}

/// 2.1.2 Stream Footer (12 bytes) starting at `t`: CRC32, Backward Size, Stream Flags, magic; then end of file.
pub open spec fn sp_xz_footer_ok(t: Seq<u8>, index_size: nat, check: u8) -> bool {
    &&& t.len() == 12
    &&& index_size == (le32(t.skip(4)) as nat + 1) * 4
    &&& t[8] == 0 && t[9] == check
    &&& le32(t) == crc32_of(t.subrange(4, 10))
    &&& t.subrange(10, 12) == xz_footer_magic()
}

/// a whole single-stream .xz file
#[verifier::opaque]
pub open spec fn sp_xz(f: Seq<u8>) -> XzRes {
    // 0x0A (SHA-256) is a check the format defines but the supported subset does not: refused outright (C18)
    if !sp_xz_header_ok(f) || f[7] == 0x0Au8 { XzRes::Bad }
    else {
        let check = f[7];
        match sp_xz_blocks(f.skip(12), check, Seq::<RecS>::empty(), Seq::<u8>::empty(), 0) {
            BlocksRes::Bad => XzRes::Bad,
            BlocksRes::Unspec => XzRes::Unspec,
            BlocksRes::Good { used, out, recs } => {
                let ip = 12 + used + 1;                     // first byte after the Index Indicator
                if ip > f.len() { XzRes::Bad } else {
                match sp_xz_index(f.skip(ip as int), recs, 1) {
                    None => XzRes::Bad,
                    Some(ki) => if ip + ki > f.len() { XzRes::Bad }
                        else if sp_xz_footer_ok(f.skip((ip + ki) as int), 1 + ki, check) { XzRes::Good { out: out } } else { XzRes::Bad },
                }}
            }
        }
    }
}

pub proof fn lemma_blocks_out_prefix(s: Seq<u8>, check: u8, recs: Seq<RecS>, out: Seq<u8>, used0: nat)
    ensures match sp_xz_blocks(s, check, recs, out, used0) {
        BlocksRes::Good { used, out: o2, recs: r2 } => out.is_prefix_of(o2) && used0 <= used && used - used0 < s.len(),
        _ => true,
    },
    decreases s.len()
{
    if s.len() > 0 && s[0] != 0 {
        match sp_xz_block(s[0], s.skip(1), check) {
            BlockRes::Good { used, out: o, unpadded } => {
                if used + 1 <= s.len() {
                    lemma_blocks_out_prefix(s.skip(1 + used as int), check, recs.push(RecS { unpadded: unpadded, unpacked: o.len() }), out + o, used0 + 1 + used);
                    assert(out.is_prefix_of(out + o));
                }
            },
            _ => {},
        }
    }
}

// ---- encoder side -----------------------------------------------------------------------------------------
/// 1.2 encoding of a multibyte integer
pub open spec fn enc_mb(v: nat) -> Seq<u8>
    decreases v
{
    if v < 128 { seq![v as u8] } else { seq![(128 + v % 128) as u8] + enc_mb(v / 128) }
}

pub proof fn lemma_enc_mb_len(v: nat, k: nat)
    requires v < pow2(7 * k), 1 <= k,
    ensures 1 <= enc_mb(v).len() <= k,
    decreases v
{
    lemma_pow2(7 * k); lemma_pow2(7);
    if v >= 128 {
        if k == 1 { assert(pow2(7) == 128) by { lemma_pow2(0); lemma_pow2(1); lemma_pow2(2); lemma_pow2(3); lemma_pow2(4); lemma_pow2(5); lemma_pow2(6); } }
        lemma_pow2_add(7, (7 * (k - 1)) as nat);
        assert(pow2(7) == 128) by { lemma_pow2(0); lemma_pow2(1); lemma_pow2(2); lemma_pow2(3); lemma_pow2(4); lemma_pow2(5); lemma_pow2(6); }
        assert(v / 128 < pow2((7 * (k - 1)) as nat)) by (nonlinear_arith) requires v < 128 * pow2((7 * (k - 1)) as nat);
        lemma_enc_mb_len(v / 128, (k - 1) as nat);
    }
}

pub proof fn lemma_pow2_add(a: nat, b: nat)
    ensures pow2(a + b) == pow2(a) * pow2(b),
    decreases a
{
    lemma_pow2(0);
    if a > 0 {
        lemma_pow2_add((a - 1) as nat, b);
        lemma_pow2((a - 1) as nat);
        lemma_pow2((a - 1 + b) as nat);
        assert(pow2(a + b) == 2 * pow2((a - 1 + b) as nat));
        assert(2 * (pow2((a - 1) as nat) * pow2(b)) == (2 * pow2((a - 1) as nat)) * pow2(b)) by (nonlinear_arith);
    } else {
        assert(pow2(0) * pow2(b) == pow2(b)) by (nonlinear_arith) requires pow2(0) == 1;
    }
}

/// decoding what the encoder wrote gives the value back (any continuation `rest`)
pub proof fn lemma_mb_roundtrip(pre: Seq<u8>, v: nat, rest: Seq<u8>, acc: nat)
    requires pre.len() + enc_mb(v).len() <= 9,
    ensures sp_multibyte(pre + enc_mb(v) + rest, pre.len(), acc) == Some((acc + v * pow2(7 * pre.len()), pre.len() + enc_mb(v).len())),
    decreases v
{
    let i = pre.len();
    let s = pre + enc_mb(v) + rest;
    if v < 128 {
        assert(s[i as int] == v as u8);
        assert(((v as u8) % 128) as nat == v);
    } else {
        let b = (128 + v % 128) as u8;
        assert(s[i as int] == b);
        assert((b % 128) as nat == v % 128);
        let pre2 = pre.push(b);
        assert(pre2 + enc_mb(v / 128) + rest =~= s);
        lemma_mb_roundtrip(pre2, v / 128, rest, acc + (v % 128) * pow2(7 * i));
        lemma_pow2_add(7, 7 * i);
        assert(pow2(7) == 128) by { lemma_pow2(0); lemma_pow2(1); lemma_pow2(2); lemma_pow2(3); lemma_pow2(4); lemma_pow2(5); lemma_pow2(6); }
        assert(acc + (v % 128) * pow2(7 * i) + (v / 128) * pow2(7 * (i + 1)) == acc + v * pow2(7 * i)) by (nonlinear_arith)
            requires pow2(7 * (i + 1)) == 128 * pow2(7 * i), v == 128 * (v / 128) + v % 128;
    }
}

pub open spec fn zeros(n: nat) -> Seq<u8> { Seq::new(n, |i: int| 0u8) }

/// what xz_compress emits, as a function of the LZMA2 payload `e` and the input length
pub open spec fn enc_xz_header(check: u8) -> Seq<u8> { xz_magic() + seq![0u8, check] + enc_le32(crc32_of(seq![0u8, check])) }
pub open spec fn enc_xz_bhdr() -> Seq<u8> { seq![2u8, 0u8, 0x21u8, 1u8, 22u8, 0u8, 0u8, 0u8] }
pub open spec fn enc_xz_block(e: Seq<u8>) -> Seq<u8> {
    enc_xz_bhdr() + enc_le32(crc32_of(enc_xz_bhdr())) + e + zeros(sp_pad4(12 + e.len()))
}
pub open spec fn enc_xz_index_body(unpadded: nat, unpacked: nat) -> Seq<u8> {
    seq![0u8] + enc_mb(1) + enc_mb(unpadded) + enc_mb(unpacked)
}
pub open spec fn enc_xz_index(unpadded: nat, unpacked: nat) -> Seq<u8> {
    let b = enc_xz_index_body(unpadded, unpacked);
    let bp = b + zeros(sp_pad4(b.len()));
    bp + enc_le32(crc32_of(bp))
}
pub open spec fn enc_xz_footer_body(check: u8, index_size: nat) -> Seq<u8> {
    enc_le32((index_size / 4 - 1) as u32) + seq![0u8, check]
}
pub open spec fn enc_xz_footer(check: u8, index_size: nat) -> Seq<u8> {
    enc_le32(crc32_of(enc_xz_footer_body(check, index_size))) + enc_xz_footer_body(check, index_size) + xz_footer_magic()
}
pub open spec fn enc_xz_file(e: Seq<u8>, unpacked: nat) -> Seq<u8> {
    enc_xz_header(0) + enc_xz_block(e) + enc_xz_index(12 + e.len(), unpacked)
        + enc_xz_footer(0, enc_xz_index(12 + e.len(), unpacked).len())
}

pub proof fn lemma_pow2_7() ensures pow2(7) == 128 {
    lemma_pow2(0); lemma_pow2(1); lemma_pow2(2); lemma_pow2(3); lemma_pow2(4); lemma_pow2(5); lemma_pow2(6);
}
pub proof fn lemma_u64_lt_pow2_70(v: u64) ensures v < pow2(70), 1 < pow2(7) {
    lemma_shl64(63);
    assert((1u64 << 63) == 0x8000_0000_0000_0000u64) by (bit_vector);
    lemma_pow2_7();
    lemma_pow2_add(63, 7);
    assert(pow2(63) * pow2(7) > 0xFFFF_FFFF_FFFF_FFFF) by (nonlinear_arith) requires pow2(63) == 0x8000_0000_0000_0000, pow2(7) == 128;
}

// ---- round trip: the spec decoder accepts what the encoder emits ----------------------------------------
pub proof fn lemma_le32_roundtrip(v: u32, rest: Seq<u8>)
    ensures le32(enc_le32(v) + rest) == v, enc_le32(v).len() == 4,
{
    let s = enc_le32(v) + rest;
    let b0: u32 = v % 256; let b1: u32 = (v / 0x100) % 256; let b2: u32 = (v / 0x1_0000) % 256; let b3: u32 = (v / 0x100_0000) % 256;
    assert(b0 < 256 && b1 < 256 && b2 < 256 && b3 < 256 && b3 * 0x100_0000 + b2 * 0x1_0000 + b1 * 0x100 + b0 == v) by (bit_vector)
        requires b0 == v % 256, b1 == (v / 0x100) % 256, b2 == (v / 0x1_0000) % 256, b3 == (v / 0x100_0000) % 256;
    assert(s[0] == b0 as u8 && s[1] == b1 as u8 && s[2] == b2 as u8 && s[3] == b3 as u8);
    assert((b0 as u8) as u32 == b0 && (b1 as u8) as u32 == b1 && (b2 as u8) as u32 == b2 && (b3 as u8) as u32 == b3);
}

pub proof fn lemma_le64_roundtrip(v: u64, rest: Seq<u8>)
    ensures le64(enc_le64(v) + rest) == v, enc_le64(v).len() == 8,
{
    let lo: u32 = (v % 0x1_0000_0000) as u32;
    let hi: u32 = (v / 0x1_0000_0000) as u32;
    let s = enc_le64(v) + rest;
    assert(s =~= enc_le32(lo) + (enc_le32(hi) + rest));
    assert(s.skip(4) =~= enc_le32(hi) + rest);
    lemma_le32_roundtrip(lo, enc_le32(hi) + rest);
    lemma_le32_roundtrip(hi, rest);
    assert((hi as u64) * 0x1_0000_0000 + (lo as u64) == v) by (bit_vector)
        requires lo == (v % 0x1_0000_0000) as u32, hi == (v / 0x1_0000_0000) as u32;
}

pub proof fn lemma_xz_rt_block(e: Seq<u8>, data: Seq<u8>, rest: Seq<u8>)
    requires l2_decodes_to(e, data),
    ensures sp_xz_block(2, enc_xz_block(e).skip(1) + rest, 0)
        == (BlockRes::Good { used: (11 + e.len() + sp_pad4(12 + e.len())) as nat, out: data, unpadded: 12 + e.len() }),
{
    reveal(sp_xz_block);
    let bh = enc_xz_bhdr();
    let crc = enc_le32(crc32_of(bh));
    let pad = zeros(sp_pad4(12 + e.len()));
    let blk = enc_xz_block(e);
    let rem = blk.skip(1) + rest;
    let hdr = seq![0u8, 0x21u8, 1u8, 22u8, 0u8, 0u8, 0u8];
    assert(blk =~= bh + crc + e + pad);
    lemma_le32_roundtrip(crc32_of(bh), e + pad + rest);
    assert(rem =~= hdr + (crc + (e + (pad + rest))));
    assert(rem.take(7) =~= hdr);
    assert(rem.skip(7) =~= crc + (e + pad + rest));
    assert(seq![2u8] + rem.take(7) =~= bh);
    // block header
    assert(sp_bh_prefix(hdr) == Some((1nat, None::<nat>, None::<nat>, 1nat)));
    let sf = hdr.skip(1);
    assert(sf =~= seq![0x21u8, 1u8, 22u8, 0u8, 0u8, 0u8]);
    lemma_pow2(0);
    assert(sp_multibyte(sf, 0, 0) == Some((0x21nat, 1nat)));
    assert(sf.skip(1) =~= seq![1u8, 22u8, 0u8, 0u8, 0u8]);
    assert(sp_multibyte(sf.skip(1), 0, 0) == Some((1nat, 1nat)));
    assert(sf.subrange(2, 3) =~= seq![22u8]);
    assert(sf.skip(3) =~= seq![0u8, 0u8, 0u8]);
    reveal_with_fuel(sp_filters, 2);
    let f0 = FilterS { id: 0x21, props: seq![22u8] };
    assert(sp_filters(sf.skip(3), 0, 7) == Some((Seq::<FilterS>::empty(), 0nat)));
    assert(sp_filters(sf, 1, 7) == Some((seq![f0] + Seq::<FilterS>::empty(), 3nat)));
    assert(all_zero(sf.skip(3)));
    let bhs = sp_block_header(hdr, 7);
    assert(bhs == Some(BlockHdrS { packed: None, unpacked: None, filters: seq![f0] + Seq::<FilterS>::empty() }));
    assert((seq![f0] + Seq::<FilterS>::empty()).len() == 1);
    assert((seq![f0] + Seq::<FilterS>::empty())[0].props.len() == 1);
    // payload
    assert(rem.skip(11) =~= e + (pad + rest));
    let w0 = Win { out: Seq::<u8>::empty(), hist: 0, maxd: usize::MAX as nat };
    let lz = sp_lzma2(e + (pad + rest), fresh_model(0, 0, 0), w0);
    assert(lz is Some && lz.unwrap().0 == e.len() && lz.unwrap().2.out == w0.out + data);
    assert(Seq::<u8>::empty() + data =~= data);
    let pos = 11 + e.len();
    assert(rem.subrange(pos as int, (pos + pad.len()) as int) =~= pad);
    assert(all_zero(pad));
}

/// three consecutive multibyte integers decode back (helper for the index)
pub proof fn lemma_mb3(a: nat, b: nat, c: nat, rest: Seq<u8>)
    requires enc_mb(a).len() <= 9, enc_mb(b).len() <= 9, enc_mb(c).len() <= 9,
    ensures ({
        let s = enc_mb(a) + enc_mb(b) + enc_mb(c) + rest;
        let la = enc_mb(a).len(); let lb = enc_mb(b).len(); let lc = enc_mb(c).len();
        &&& sp_multibyte(s, 0, 0) == Some((a, la))
        &&& sp_multibyte(s.skip(la as int), 0, 0) == Some((b, lb))
        &&& sp_multibyte(s.skip(la as int).skip(lb as int), 0, 0) == Some((c, lc))
        &&& s.skip(la as int).skip(lb as int).skip(lc as int) == rest
    }),
{
    hide(sp_multibyte);      // only lemma_mb_roundtrip's statement about it is used; unfolding it made this lemma's cost erratic
    let ma = enc_mb(a); let mb = enc_mb(b); let mc = enc_mb(c);
    let s = ma + mb + mc + rest;
    lemma_pow2(0);
    let e0 = Seq::<u8>::empty();
    assert(s =~= e0 + ma + (mb + mc + rest));
    lemma_mb_roundtrip(e0, a, mb + mc + rest, 0);
    assert(a * pow2(0) == a) by (nonlinear_arith) requires pow2(0) == 1;
    let s1 = s.skip(ma.len() as int);
    assert(s1 =~= e0 + mb + (mc + rest));
    lemma_mb_roundtrip(e0, b, mc + rest, 0);
    assert(b * pow2(0) == b) by (nonlinear_arith) requires pow2(0) == 1;
    let s2 = s1.skip(mb.len() as int);
    assert(s2 =~= e0 + mc + rest);
    lemma_mb_roundtrip(e0, c, rest, 0);
    assert(c * pow2(0) == c) by (nonlinear_arith) requires pow2(0) == 1;
    assert(s2.skip(mc.len() as int) =~= rest);
}

pub proof fn lemma_index_records_one(s1: Seq<u8>, unp: nat, upk: nat, la: nat, lb: nat)
    requires sp_multibyte(s1, 0, 0) == Some((unp, la)), sp_multibyte(s1.skip(la as int), 0, 0) == Some((upk, lb)),
    ensures sp_index_records(s1, seq![RecS { unpadded: unp, unpacked: upk }], 0) == Some(la + lb),
{
    let recs = seq![RecS { unpadded: unp, unpacked: upk }];
    reveal_with_fuel(sp_index_records, 2);
    assert(recs.len() == 1);
    assert(recs[0].unpadded == unp && recs[0].unpacked == upk);
    assert(sp_index_records(s1.skip((la + lb) as int), recs, 1) == Some(0nat));
}

/// the tail of the index: padding and CRC32
pub proof fn lemma_index_tail(s: Seq<u8>, recs: Seq<RecS>, k0: nat, used: nat, pad: Seq<u8>, crc: u32, rest: Seq<u8>, bp: Seq<u8>)
    requires
        sp_multibyte(s, 0, 0) == Some((recs.len(), k0)),
        sp_index_records(s.skip(k0 as int), recs, 0) == Some(used),
        pad == zeros(sp_pad4(1 + k0 + used)),
        s.len() >= k0 + used, s.skip((k0 + used) as int) == pad + (enc_le32(crc) + rest),
        bp == seq![0u8] + s.take((k0 + used) as int) + pad, crc == crc32_of(bp),
    ensures sp_xz_index(s, recs, 1) == Some(k0 + used + pad.len() + 4),
{
    let body = k0 + used;
    assert(s.subrange(body as int, (body + pad.len()) as int) =~= pad) by {
        assert(s.skip(body as int).take(pad.len() as int) =~= pad);
        assert(s.skip(body as int).take(pad.len() as int) =~= s.subrange(body as int, (body + pad.len()) as int));
    }
    assert(all_zero(pad));
    assert(s.skip((body + pad.len()) as int) =~= enc_le32(crc) + rest) by {
        assert(s.skip(body as int).skip(pad.len() as int) =~= enc_le32(crc) + rest);
        assert(s.skip(body as int).skip(pad.len() as int) =~= s.skip((body + pad.len()) as int));
    }
    lemma_le32_roundtrip(crc, rest);
    assert(s.take((body + pad.len()) as int) =~= s.take(body as int) + pad) by {
        assert(s.take((body + pad.len()) as int) =~= s.take(body as int) + s.subrange(body as int, (body + pad.len()) as int));
    }
    assert(seq![0u8] + s.take((body + pad.len()) as int) =~= bp);
}

#[verifier::rlimit(100)]
pub proof fn lemma_xz_rt_index(unp: nat, upk: nat, rest: Seq<u8>)
    requires enc_mb(unp).len() <= 9, enc_mb(upk).len() <= 9,
    ensures ({
        let idx = enc_xz_index(unp, upk);
        let recs = seq![RecS { unpadded: unp, unpacked: upk }];
        &&& idx.len() >= 8 && idx.len() % 4 == 0 && idx[0] == 0u8
        &&& sp_xz_index(idx.skip(1) + rest, recs, 1) == Some((idx.len() - 1) as nat)
    }),
{
    hide(sp_multibyte);
    hide(sp_xz_index);
    hide(sp_index_records);
    let b = enc_xz_index_body(unp, upk);
    let pad = zeros(sp_pad4(b.len()));
    let bp = b + pad;
    let crc = crc32_of(bp);
    let idx = enc_xz_index(unp, upk);
    let recs = seq![RecS { unpadded: unp, unpacked: upk }];
    let m0 = enc_mb(1); let m1 = enc_mb(unp); let m2 = enc_mb(upk);
    assert(m0 =~= seq![1u8]);
    assert(idx =~= bp + enc_le32(crc));
    lemma_le32_roundtrip(crc, rest);
    let tail = pad + (enc_le32(crc) + rest);
    let s = idx.skip(1) + rest;
    assert(b =~= seq![0u8] + (m0 + m1 + m2));
    assert(s =~= m0 + m1 + m2 + tail);
    lemma_mb3(1, unp, upk, tail);
    let s1 = s.skip(1);
    lemma_index_records_one(s1, unp, upk, m1.len(), m2.len());
    let used = m1.len() + m2.len();
    assert(s.skip((1 + used) as int) =~= tail) by {
        assert(s.skip(1).skip(m1.len() as int).skip(m2.len() as int) =~= s.skip((1 + used) as int));
    }
    assert(s.take((1 + used) as int) =~= m0 + m1 + m2);
    assert(seq![0u8] + s.take((1 + used) as int) + pad =~= bp);
    assert(b.len() == 1 + 1 + used);
    lemma_index_tail(s, recs, 1, used, pad, crc, rest, bp);
    assert((b.len() + sp_pad4(b.len())) % 4 == 0);
}

pub proof fn lemma_xz_rt_header(rest: Seq<u8>)
    ensures sp_xz_header_ok(enc_xz_header(0) + rest), enc_xz_header(0).len() == 12, (enc_xz_header(0) + rest)[7] == 0u8,
{
    let h = enc_xz_header(0);
    let f = h + rest;
    let c = crc32_of(seq![0u8, 0u8]);
    lemma_le32_roundtrip(c, rest);
    assert(h =~= xz_magic() + seq![0u8, 0u8] + enc_le32(c));
    assert(f.take(6) =~= xz_magic());
    assert(f.subrange(6, 8) =~= seq![0u8, 0u8]);
    assert(f.skip(8) =~= enc_le32(c) + rest);
}

pub proof fn lemma_xz_rt_footer(index_size: nat)
    requires index_size >= 4, index_size % 4 == 0, index_size / 4 - 1 <= 0xFFFF_FFFF,
    ensures sp_xz_footer_ok(enc_xz_footer(0, index_size), index_size, 0),
{
    let ft = enc_xz_footer(0, index_size);
    let fb = enc_xz_footer_body(0, index_size);
    let bs = (index_size / 4 - 1) as u32;
    lemma_le32_roundtrip(crc32_of(fb), fb + xz_footer_magic());
    lemma_le32_roundtrip(bs, seq![0u8, 0u8] + xz_footer_magic());
    assert(ft =~= enc_le32(crc32_of(fb)) + (fb + xz_footer_magic()));
    assert(fb =~= enc_le32(bs) + seq![0u8, 0u8]);
    assert(ft.len() == 12);
    assert(ft.skip(4) =~= enc_le32(bs) + (seq![0u8, 0u8] + xz_footer_magic()));
    assert(ft.subrange(4, 10) =~= fb);
    assert(ft.subrange(10, 12) =~= xz_footer_magic());
    assert(ft[8] == 0u8 && ft[9] == 0u8);
}

pub proof fn lemma_xz_rt_blocks(e: Seq<u8>, data: Seq<u8>, tail: Seq<u8>)
    requires l2_decodes_to(e, data), tail.len() > 0, tail[0] == 0u8,
    ensures sp_xz_blocks(enc_xz_block(e) + tail, 0, Seq::<RecS>::empty(), Seq::<u8>::empty(), 0)
        == (BlocksRes::Good { used: enc_xz_block(e).len(), out: data, recs: seq![RecS { unpadded: 12 + e.len(), unpacked: data.len() }] }),
{
    let blk = enc_xz_block(e);
    let s = blk + tail;
    let used = (11 + e.len() + sp_pad4(12 + e.len())) as nat;
    assert(blk.len() == 1 + used);
    assert(s[0] == 2u8);
    lemma_xz_rt_block(e, data, tail);
    assert(s.skip(1) =~= blk.skip(1) + tail);
    assert(s.skip(1 + used as int) =~= tail);
    let recs0 = Seq::<RecS>::empty();
    let recs = recs0.push(RecS { unpadded: 12 + e.len(), unpacked: data.len() });
    assert(recs =~= seq![RecS { unpadded: 12 + e.len(), unpacked: data.len() }]);
    assert(Seq::<u8>::empty() + data =~= data);
    reveal_with_fuel(sp_xz_blocks, 2);
}

#[verifier::rlimit(200)]
pub proof fn lemma_xz_roundtrip(e: Seq<u8>, data: Seq<u8>)
    requires l2_decodes_to(e, data), enc_mb(12 + e.len()).len() <= 9, enc_mb(data.len()).len() <= 9,
        enc_xz_index(12 + e.len(), data.len()).len() / 4 - 1 <= 0xFFFF_FFFF,
    ensures sp_xz(enc_xz_file(e, data.len())) == (XzRes::Good { out: data }),
{
    hide(sp_multibyte);
    hide(sp_xz_index);
    hide(sp_index_records);
    hide(sp_xz_blocks);
    hide(sp_xz_header_ok);
    hide(sp_xz_footer_ok);
    reveal(sp_xz);
    let n = data.len();
    let u: nat = 12 + e.len();
    let h = enc_xz_header(0);
    let blk = enc_xz_block(e);
    let idx = enc_xz_index(u, n);
    let ft = enc_xz_footer(0, idx.len());
    let f = enc_xz_file(e, n);
    assert(f =~= h + (blk + (idx + ft)));
    lemma_xz_rt_header(blk + (idx + ft));
    lemma_xz_rt_index(u, n, ft);
    let s = f.skip(12);
    assert(s =~= blk + (idx + ft));
    assert((idx + ft)[0] == 0u8);
    lemma_xz_rt_blocks(e, data, idx + ft);
    let recs = seq![RecS { unpadded: u, unpacked: n }];
    let ip = 12 + blk.len() + 1;
    assert(f.skip(ip as int) =~= idx.skip(1) + ft);
    let ki = (idx.len() - 1) as nat;
    assert(f.skip((ip + ki) as int) =~= ft);
    lemma_xz_rt_footer(idx.len());
}

/// a 64-bit value needs at most 10 groups of 7 bits; values below 2^63 need at most 9
pub proof fn lemma_enc_mb_len_u64(v: u64)
    requires v < 0x8000_0000_0000_0000,
    ensures enc_mb(v as nat).len() <= 9,
{
    lemma_shl64(63);
    assert((1u64 << 63) == 0x8000_0000_0000_0000u64) by (bit_vector);
    lemma_enc_mb_len(v as nat, 9);
}
