// =============================================================================================
// Format specification, part 5: LZMA2 (the chunk layer described in xz/src/liblzma/lzma/lzma2_decoder.c
// and in the xz file format / LZMA2 filter documentation).
//   control 0x00            end of the LZMA2 stream
//   control 0x01 / 0x02     uncompressed chunk (0x01: dictionary reset); 16-bit big-endian size - 1
//   control 0x03 ..= 0x7F   invalid
//   control 0x80 ..= 0xFF   LZMA chunk; bits 5-6 = reset class: 0 nothing, 1 state reset,
//                           2 state reset + new properties byte, 3 = 2 + dictionary reset;
//                           uncompressed size - 1 = (control & 0x1F) << 16 | be16; compressed size - 1 = be16;
//                           properties byte (classes 2, 3): lc/lp/pb as in .lzma with lc + lp <= 4.
// The chunk's LZMA payload is decoded with the dictionary (everything since the last dictionary
// reset) and, unless reset, the probability model / state / reps of the previous LZMA chunk.
// LENIENCIES of lzma-rs that this spec mirrors (outside the listed properties, see DESIGN.md 6):
// the first chunk is not required to reset the dictionary / set properties, and a chunk whose
// payload is not used up to its declared compressed size is not rejected (decoding continues at
// the first unused byte).
// =============================================================================================

pub open spec fn win_reset(w: Win) -> Win { Win { hist: 0, ..w } }
pub open spec fn win_append(w: Win, b: Seq<u8>) -> Win { Win { out: w.out + b, hist: w.hist + b.len(), ..w } }

pub open spec fn l2_unpacked(c: u8, rem: Seq<u8>) -> nat { (((c & 0x1F) as nat) * 65536 + be16(rem.skip(1)) as nat) + 1 }
pub open spec fn l2_packed(rem: Seq<u8>) -> nat { be16(rem.skip(3)) as nat + 1 }
pub open spec fn l2_class(c: u8) -> nat { ((c / 32) % 4) as nat }

/// properties byte of an LZMA2 chunk: as in .lzma, additionally lc + lp <= 4
pub open spec fn l2_props(d: u8) -> Option<(nat, nat, nat)> {
    match sp_props(d) { Some((lc, lp, pb)) => if lc + lp > 4 { None } else { Some((lc, lp, pb)) }, None => None }
}

/// one LZMA chunk (control >= 0x80) starting at `rem` (rem[0] is the control byte).
/// Returns (bytes of `rem` consumed, model after, window after).
#[verifier::opaque]
pub open spec fn sp_lzma2_lzma_chunk(rem: Seq<u8>, m: LzS, w: Win) -> Option<(nat, LzS, Win)> {
    let c = rem[0];
    if rem.len() < 5 { None }
    else {
        let cls = l2_class(c);
        let hdr: nat = if cls >= 2 { 6 } else { 5 };
        if rem.len() < hdr { None }
        else {
            let newp = if cls >= 2 { l2_props(rem[5]) } else { Some((m.lc, m.lp, m.pb)) };
            match newp {
                None => None,
                Some((lc, lp, pb)) => {
                    let w1 = if cls == 3 { win_reset(w) } else { w };
                    let m1 = if cls >= 1 { fresh_model(lc, lp, pb) } else { m };
                    let avail = rem.skip(hdr as int);
                    let payload = avail.take(min_nat2(l2_packed(rem), avail.len()) as int);
                    if payload.len() < 5 { None }
                    else {
                        let target = w1.hist + l2_unpacked(c, rem);
                        if target > 0xFFFF_FFFF_FFFF_FFFF { None } else {
                        match sp_run(Rc { range: 0xFFFF_FFFFu32, code: be32(payload.skip(1)), inp: payload.skip(5) }, m1, w1, Some(target as u64)) {
                            None => None,
                            Some((r2, m2, w2)) => Some(((hdr + payload.len() - r2.inp.len()) as nat, m2, w2)),
                        }}
                    }
                }
            }
        }
    }
}
pub open spec fn min_nat2(a: nat, b: nat) -> nat { if a <= b { a } else { b } }

/// the whole LZMA2 stream from `rem` on: returns (bytes consumed including the end byte, final window)
#[verifier::opaque]
pub open spec fn sp_lzma2(rem: Seq<u8>, m: LzS, w: Win) -> Option<(nat, LzS, Win)>
    decreases rem.len()
{
    if rem.len() == 0 { None }
    else {
        let c = rem[0];
        if c == 0 { Some((1, m, w)) }
        else if c == 1 || c == 2 {
            if rem.len() < 3 { None }
            else {
                let n: nat = be16(rem.skip(1)) as nat + 1;
                if rem.len() < 3 + n { None }
                else {
                    let w1 = if c == 1 { win_reset(w) } else { w };
                    let w2 = win_append(w1, rem.subrange(3, 3 + n as int));
                    match sp_lzma2(rem.skip(3 + n as int), m, w2) {
                        None => None,
                        Some((k, m3, w3)) => Some((3 + n + k, m3, w3)),
                    }
                }
            }
        }
        else if c < 0x80 { None }
        else {
            match sp_lzma2_lzma_chunk(rem, m, w) {
                None => None,
                Some((k1, m2, w2)) => {
                    if k1 == 0 || k1 > rem.len() { None } else {
                    match sp_lzma2(rem.skip(k1 as int), m2, w2) {
                        None => None,
                        Some((k, m3, w3)) => Some((k1 + k, m3, w3)),
                    }}
                }
            }
        }
    }
}

/// one unfolding of sp_lzma2, as separate implications
pub proof fn lemma_l2_step(rem: Seq<u8>, m: LzS, w: Win)
    ensures
        rem.len() == 0 ==> sp_lzma2(rem, m, w) is None,
        rem.len() > 0 && rem[0] == 0 ==> sp_lzma2(rem, m, w) == Some((1nat, m, w)),
        rem.len() > 0 && (rem[0] == 1 || rem[0] == 2) ==> ({
            let n: nat = be16(rem.skip(1)) as nat + 1;
            let w1 = if rem[0] == 1 { win_reset(w) } else { w };
            if rem.len() < 3 || rem.len() < 3 + n { sp_lzma2(rem, m, w) is None }
            else {
                sp_lzma2(rem, m, w) == (match sp_lzma2(rem.skip(3 + n as int), m, win_append(w1, rem.subrange(3, 3 + n as int))) {
                    None => None, Some((k, m3, w3)) => Some((3 + n + k, m3, w3)) })
            }
        }),
        rem.len() > 0 && 3 <= rem[0] < 0x80 ==> sp_lzma2(rem, m, w) is None,
        rem.len() > 0 && rem[0] >= 0x80 ==> (match sp_lzma2_lzma_chunk(rem, m, w) {
            None => sp_lzma2(rem, m, w) is None,
            Some((k1, m2, w2)) =>
                if k1 == 0 || k1 > rem.len() { sp_lzma2(rem, m, w) is None }
                else { sp_lzma2(rem, m, w) == (match sp_lzma2(rem.skip(k1 as int), m2, w2) {
                    None => None, Some((k, m3, w3)) => Some((k1 + k, m3, w3)) }) },
        }),
{
    reveal_with_fuel(sp_lzma2, 2);
}

// ---- encoder side: what lzma-rs's LZMA2 "encoder" emits (stored chunks with dictionary reset) -----
pub proof fn lemma_be16_roundtrip(v: u16, rest: Seq<u8>)
    ensures be16(enc_be16(v) + rest) == v,
{
    let s = enc_be16(v) + rest;
    assert(s[0] == (v / 256) as u8 && s[1] == (v % 256) as u8);
}

/// shape of the result of decoding `k0` more bytes before the rest
pub open spec fn l2_shift(k0: nat, r: Option<(nat, LzS, Win)>) -> Option<(nat, LzS, Win)> {
    match r { None => None, Some((k, m3, w3)) => Some((k0 + k, m3, w3)) }
}

/// a stored chunk with dictionary reset, followed by `s`, decodes to the chunk data followed by what `s` decodes to
pub proof fn lemma_l2_stored_chunk(d: Seq<u8>, s: Seq<u8>, m: LzS, w: Win)
    requires 1 <= d.len() <= 65536,
    ensures ({
        let e = seq![1u8] + enc_be16((d.len() - 1) as u16) + d;
        sp_lzma2(e + s, m, w) == l2_shift(e.len(), sp_lzma2(s, m, win_append(win_reset(w), d)))
    }),
{
    let v = (d.len() - 1) as u16;
    let e = seq![1u8] + enc_be16(v) + d;
    let rem = e + s;
    lemma_l2_step(rem, m, w);
    assert(rem[0] == 1u8);
    assert(rem.skip(1) =~= enc_be16(v) + (d + s));
    lemma_be16_roundtrip(v, d + s);
    let n: nat = be16(rem.skip(1)) as nat + 1;
    assert(n == d.len());
    assert(rem.len() == 3 + n + s.len());
    assert(rem.subrange(3, 3 + n as int) =~= d);
    assert(rem.skip(3 + n as int) =~= s);
}

pub proof fn lemma_l2_end(s: Seq<u8>, m: LzS, w: Win)
    ensures sp_lzma2(seq![0u8] + s, m, w) == Some((1nat, m, w)),
{
    lemma_l2_step(seq![0u8] + s, m, w);
}

/// window after decoding stored chunks whose total data is `data`, the last chunk having `last` bytes
pub open spec fn l2_win_after(w: Win, data: Seq<u8>, last: Option<nat>) -> Win {
    Win { out: w.out + data, hist: match last { Some(l) => l, None => w.hist }, maxd: w.maxd }
}
/// `e` is a prefix that decodes to `data`: for every continuation s, decoding e + s == decoding s afterwards
pub open spec fn l2_prefix_decodes(e: Seq<u8>, data: Seq<u8>, last: Option<nat>) -> bool {
    forall|s: Seq<u8>, m: LzS, w: Win| #[trigger] sp_lzma2(e + s, m, w) == l2_shift(e.len(), sp_lzma2(s, m, l2_win_after(w, data, last)))
}
/// `e` is a complete LZMA2 stream that decodes to exactly `data`, whatever follows it
pub open spec fn l2_decodes_to(e: Seq<u8>, data: Seq<u8>) -> bool {
    forall|s: Seq<u8>, m: LzS, w: Win| (#[trigger] sp_lzma2(e + s, m, w)) matches Some((k, m3, w3)) && k == e.len() && m3 == m && w3.out == w.out + data
}

pub proof fn lemma_l2_prefix_empty()
    ensures l2_prefix_decodes(Seq::<u8>::empty(), Seq::<u8>::empty(), None),
{
    assert forall|s: Seq<u8>, m: LzS, w: Win| #[trigger] sp_lzma2(Seq::<u8>::empty() + s, m, w)
        == l2_shift(0, sp_lzma2(s, m, l2_win_after(w, Seq::<u8>::empty(), None))) by {
        assert(Seq::<u8>::empty() + s =~= s);
        assert(w.out + Seq::<u8>::empty() =~= w.out);
        assert(l2_win_after(w, Seq::<u8>::empty(), None) == w);
    }
}

pub proof fn lemma_l2_prefix_chunk(e: Seq<u8>, data: Seq<u8>, last: Option<nat>, d: Seq<u8>)
    requires l2_prefix_decodes(e, data, last), 1 <= d.len() <= 65536,
    ensures l2_prefix_decodes(e + (seq![1u8] + enc_be16((d.len() - 1) as u16) + d), data + d, Some(d.len())),
{
    let c = seq![1u8] + enc_be16((d.len() - 1) as u16) + d;
    assert forall|s: Seq<u8>, m: LzS, w: Win| #[trigger] sp_lzma2((e + c) + s, m, w)
        == l2_shift((e + c).len(), sp_lzma2(s, m, l2_win_after(w, data + d, Some(d.len())))) by {
        assert((e + c) + s =~= e + (c + s));
        let w1 = l2_win_after(w, data, last);
        assert(sp_lzma2(e + (c + s), m, w) == l2_shift(e.len(), sp_lzma2(c + s, m, w1)));
        lemma_l2_stored_chunk(d, s, m, w1);
        assert((w.out + data) + d =~= w.out + (data + d));
        assert(win_append(win_reset(w1), d) == l2_win_after(w, data + d, Some(d.len())));
    }
}

pub proof fn lemma_l2_prefix_end(e: Seq<u8>, data: Seq<u8>, last: Option<nat>)
    requires l2_prefix_decodes(e, data, last),
    ensures l2_decodes_to(e + seq![0u8], data),
{
    assert forall|s: Seq<u8>, m: LzS, w: Win| (#[trigger] sp_lzma2((e + seq![0u8]) + s, m, w)) matches Some((k, m3, w3)) && k == (e + seq![0u8]).len() && m3 == m && w3.out == w.out + data by {
        let w1 = l2_win_after(w, data, last);
        assert((e + seq![0u8]) + s =~= e + (seq![0u8] + s));
        assert(sp_lzma2(e + (seq![0u8] + s), m, w) == l2_shift(e.len(), sp_lzma2(seq![0u8] + s, m, w1)));
        lemma_l2_end(s, m, w1);
    }
}
