// =============================================================================================
// Format specification, part 5: LZMA2 (the chunk layer described in xz/src/liblzma/lzma/lzma2_decoder.c
// and in the xz file format / LZMA2 filter documentation).
//   control 0x00            end of the LZMA2 stream
//   control 0x01 / 0x02     uncompressed chunk (0x01: dictionary reset); 16-bit big-endian size - 1
//   control 0x03 ..= 0x7F   invalid
//   control 0x80 ..= 0xFF   LZMA chunk; bits 5-6 = reset class: 0 nothing, 1 state reset,
//                           2 state reset + new properties byte, 3 = 2 + dictionary reset;
//                           uncompressed size - 1 = (control & 0x1F) << 16 | be16; compressed size - 1 = be16;
//                           properties byte (classes 2, 3): lc/lp/pb as in .lzma with lc + lp <= 4.
// The chunk's LZMA payload is decoded with the dictionary (everything since the last dictionary
// reset) and, unless reset, the probability model / state / reps of the previous LZMA chunk.
// LENIENCIES of lzma-rs that this spec mirrors (outside the listed properties, see DESIGN.md 6):
// the first chunk is not required to reset the dictionary / set properties, and a chunk whose
// payload is not used up to its declared compressed size is not rejected (decoding continues at
// the first unused byte).
// =============================================================================================

pub open spec fn win_reset(w: Win) -> Win { Win { hist: 0, ..w } }
pub open spec fn win_append(w: Win, b: Seq<u8>) -> Win { Win { out: w.out + b, hist: w.hist + b.len(), ..w } }

pub open spec fn l2_unpacked(c: u8, rem: Seq<u8>) -> nat { (((c & 0x1F) as nat) * 65536 + be16(rem.skip(1)) as nat) + 1 }
pub open spec fn l2_packed(rem: Seq<u8>) -> nat { be16(rem.skip(3)) as nat + 1 }
pub open spec fn l2_class(c: u8) -> nat { ((c / 32) % 4) as nat }

/// properties byte of an LZMA2 chunk: as in .lzma, additionally lc + lp <= 4
pub open spec fn l2_props(d: u8) -> Option<(nat, nat, nat)> {
    match sp_props(d) { Some((lc, lp, pb)) => if lc + lp > 4 { None } else { Some((lc, lp, pb)) }, None => None }
}

/// one LZMA chunk (control >= 0x80) starting at `rem` (rem[0] is the control byte).
/// Returns (bytes of `rem` consumed, model after, window after).
#[verifier::opaque]
pub open spec fn sp_lzma2_lzma_chunk(rem: Seq<u8>, m: LzS, w: Win) -> Option<(nat, LzS, Win)> {
    let c = rem[0];
    if rem.len() < 5 { None }
    else {
        let cls = l2_class(c);
        let hdr: nat = if cls >= 2 { 6 } else { 5 };
        if rem.len() < hdr { None }
        else {
            let newp = if cls >= 2 { l2_props(rem[5]) } else { Some((m.lc, m.lp, m.pb)) };
            match newp {
                None => None,
                Some((lc, lp, pb)) => {
                    let w1 = if cls == 3 { win_reset(w) } else { w };
                    let m1 = if cls >= 1 { fresh_model(lc, lp, pb) } else { m };
                    let avail = rem.skip(hdr as int);
                    let payload = avail.take(min_nat2(l2_packed(rem), avail.len()) as int);
                    if payload.len() < 5 { None }
                    else {
                        let target = w1.hist + l2_unpacked(c, rem);
                        if target > 0xFFFF_FFFF_FFFF_FFFF { None } else {
                        match sp_run(Rc { range: 0xFFFF_FFFFu32, code: be32(payload.skip(1)), inp: payload.skip(5) }, m1, w1, Some(target as u64)) {
                            None => None,
                            Some((r2, m2, w2)) => Some(((hdr + payload.len() - r2.inp.len()) as nat, m2, w2)),
                        }}
                    }
                }
            }
        }
    }
}
pub open spec fn min_nat2(a: nat, b: nat) -> nat { if a <= b { a } else { b } }

/// the whole LZMA2 stream from `rem` on: returns (bytes consumed including the end byte, final window)
#[verifier::opaque]
pub open spec fn sp_lzma2(rem: Seq<u8>, m: LzS, w: Win) -> Option<(nat, LzS, Win)>
    decreases rem.len()
{
    if rem.len() == 0 { None }
    else {
        let c = rem[0];
        if c == 0 { Some((1, m, w)) }
        else if c == 1 || c == 2 {
            if rem.len() < 3 { None }
            else {
                let n: nat = be16(rem.skip(1)) as nat + 1;
                if rem.len() < 3 + n { None }
                else {
                    let w1 = if c == 1 { win_reset(w) } else { w };
                    let w2 = win_append(w1, rem.subrange(3, 3 + n as int));
                    match sp_lzma2(rem.skip(3 + n as int), m, w2) {
                        None => None,
                        Some((k, m3, w3)) => Some((3 + n + k, m3, w3)),
                    }
                }
            }
        }
        else if c < 0x80 { None }
        else {
            match sp_lzma2_lzma_chunk(rem, m, w) {
                None => None,
                Some((k1, m2, w2)) => {
                    if k1 == 0 || k1 > rem.len() { None } else {
                    match sp_lzma2(rem.skip(k1 as int), m2, w2) {
                        None => None,
                        Some((k, m3, w3)) => Some((k1 + k, m3, w3)),
                    }}
                }
            }
        }
    }
}

/// one unfolding of sp_lzma2, as separate implications
pub proof fn lemma_l2_step(rem: Seq<u8>, m: LzS, w: Win)
    ensures
        rem.len() == 0 ==> sp_lzma2(rem, m, w) is None,
        rem.len() > 0 && rem[0] == 0 ==> sp_lzma2(rem, m, w) == Some((1nat, m, w)),
        rem.len() > 0 && (rem[0] == 1 || rem[0] == 2) ==> ({
            let n: nat = be16(rem.skip(1)) as nat + 1;
            let w1 = if rem[0] == 1 { win_reset(w) } else { w };
            if rem.len() < 3 || rem.len() < 3 + n { sp_lzma2(rem, m, w) is None }
            else {
                sp_lzma2(rem, m, w) == (match sp_lzma2(rem.skip(3 + n as int), m, win_append(w1, rem.subrange(3, 3 + n as int))) {
                    None => None, Some((k, m3, w3)) => Some((3 + n + k, m3, w3)) })
            }
        }),
        rem.len() > 0 && 3 <= rem[0] < 0x80 ==> sp_lzma2(rem, m, w) is None,
        rem.len() > 0 && rem[0] >= 0x80 ==> (match sp_lzma2_lzma_chunk(rem, m, w) {
            None => sp_lzma2(rem, m, w) is None,
            Some((k1, m2, w2)) =>
                if k1 == 0 || k1 > rem.len() { sp_lzma2(rem, m, w) is None }
                else { sp_lzma2(rem, m, w) == (match sp_lzma2(rem.skip(k1 as int), m2, w2) {
                    None => None, Some((k, m3, w3)) => Some((k1 + k, m3, w3)) }) },
        }),
{
    reveal_with_fuel(sp_lzma2, 2);
}
