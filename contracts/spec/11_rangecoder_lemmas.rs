// ---- lemmas about the spec range decoder (pure mathematics, independent of lzma-rs) ------------

/// progress order used for termination: a decoded bit either consumes input or shrinks Range
pub open spec fn rc_lt(b: Rc, a: Rc) -> bool {
    b.inp.len() < a.inp.len() || (b.inp.len() == a.inp.len() && b.range < a.range)
}
pub open spec fn rc_le(b: Rc, a: Rc) -> bool { rc_lt(b, a) || (b.inp.len() == a.inp.len() && b.range == a.range) }
/// b's input is a's input with k bytes removed from the front
pub open spec fn rc_adv(a: Rc, b: Rc) -> bool {
    b.inp.len() <= a.inp.len() && b.inp == a.inp.skip(a.inp.len() - b.inp.len())
}

pub proof fn lemma_bound(range: u32, prob: u16)
    requires prob_ok(prob),
    ensures
        (range >> 11) * (prob as u32) <= range,
        (range >> 11) * (prob as u32) <= 0xFFFF_FFFF,
        range >= K_TOP ==> (range >> 11) * (prob as u32) >= 0x1_0000
            && range - (range >> 11) * (prob as u32) >= 0x1_0000
            && (range >> 11) * (prob as u32) < range,
{
    let a = range >> 11;
    let p = prob as u32;
    assert(a <= 0x1F_FFFF) by (bit_vector) requires a == range >> 11;
    assert(a * 0x800 <= range) by (bit_vector) requires a == range >> 11;
    assert(a * p <= a * 2017) by (nonlinear_arith) requires p <= 2017, a >= 0;
    assert(a * p >= a * 31) by (nonlinear_arith) requires p >= 31, a >= 0;
    if range >= K_TOP {
        assert(a >= 0x2000) by (bit_vector) requires a == range >> 11, range >= 0x0100_0000u32;
    }
}

pub proof fn lemma_prob(prob: u16)
    requires prob_ok(prob),
    ensures prob_ok(sp_prob_after(prob, true, true)), prob_ok(sp_prob_after(prob, false, true)),
        prob + ((0x800u16 - prob) as u16 >> 5) <= 2017, prob - (prob >> 5) >= 31, (prob >> 5) <= prob,
{
    assert(prob - (prob >> 5) >= 31 && (prob >> 5) <= prob) by (bit_vector) requires 31 <= prob && prob <= 2017;
    let d = (0x800u16 - prob) as u16;
    assert(prob + (d >> 5) <= 2017) by (bit_vector) requires 31 <= prob && prob <= 2017, d == 0x800u16 - prob;
}

pub proof fn lemma_normalize(rc: Rc)
    requires rc.range >= 0x1_0000,
    ensures match sp_normalize(rc) {
        Some(r2) => rc_ok(r2) && rc_adv(rc, r2) && rc.inp.len() - r2.inp.len() <= 1
            && (r2.inp.len() < rc.inp.len() || r2 == rc),
        None => rc.inp.len() == 0,
    },
{
    if rc.range < K_TOP && rc.inp.len() > 0 {
        let r = rc.range;
        assert((r << 8) >= 0x0100_0000u32) by (bit_vector) requires r >= 0x1_0000u32, r < 0x0100_0000u32;
    } else if rc.inp.len() > 0 || rc.range >= K_TOP {
        assert(rc.inp.skip(0) =~= rc.inp);
    }
}

pub proof fn lemma_sp_bit(rc: Rc, prob: u16, upd: bool)
    requires rc_ok(rc), prob_ok(prob),
    ensures match sp_bit(rc, prob, upd) {
        Some((b, r2, p2)) => rc_ok(r2) && prob_ok(p2) && rc_lt(r2, rc) && rc_adv(rc, r2)
            && rc.inp.len() - r2.inp.len() <= 1 && (!upd ==> p2 == prob),
        None => true,
    },
{
    lemma_bound(rc.range, prob);
    lemma_prob(prob);
    let bound: u32 = ((rc.range >> 11) * (prob as u32)) as u32;
    if rc.code < bound {
        lemma_normalize(Rc { range: bound, code: rc.code, inp: rc.inp });
    } else {
        lemma_normalize(Rc { range: (rc.range - bound) as u32, code: (rc.code - bound) as u32, inp: rc.inp });
    }
}

pub proof fn lemma_sp_direct_bit(rc: Rc)
    requires rc_ok(rc),
    ensures match sp_direct_bit(rc) {
        Some((b, r2)) => rc_ok(r2) && rc_lt(r2, rc) && rc_adv(rc, r2) && rc.inp.len() - r2.inp.len() <= 1,
        None => true,
    },
{
    let r: u32 = rc.range >> 1;
    let r0 = rc.range;
    assert(r >= 0x1_0000u32 && r < r0) by (bit_vector) requires r == r0 >> 1, r0 >= 0x0100_0000u32;
    if rc.code >= r {
        lemma_normalize(Rc { range: r, code: (rc.code - r) as u32, inp: rc.inp });
    } else {
        lemma_normalize(Rc { range: r, code: rc.code, inp: rc.inp });
    }
}

pub proof fn lemma_rc_adv_trans(a: Rc, b: Rc, c: Rc)
    requires rc_adv(a, b), rc_adv(b, c),
    ensures rc_adv(a, c),
{
    assert(c.inp =~= a.inp.skip(a.inp.len() - c.inp.len()));
}

pub proof fn lemma_pow2(i: nat)
    ensures pow2(i) >= 1, pow2(i + 1) == 2 * pow2(i),
        i == 0 ==> pow2(i) == 1, i == 1 ==> pow2(i) == 2, i == 2 ==> pow2(i) == 4, i == 3 ==> pow2(i) == 8,
        i == 4 ==> pow2(i) == 16, i == 5 ==> pow2(i) == 32, i == 6 ==> pow2(i) == 64, i == 7 ==> pow2(i) == 128,
        i == 8 ==> pow2(i) == 256,
    decreases i
{
    reveal_with_fuel(pow2, 10);
    if i > 0 { lemma_pow2((i - 1) as nat); }
}

/// the whole-tree facts: result in range, probabilities stay ok, length preserved, progress
pub proof fn lemma_sp_tree(rc: Rc, probs: Seq<u16>, n: nat, i: nat, m: nat, upd: bool)
    requires rc_ok(rc), probs_ok(probs), i <= n, pow2(i) <= m < 2 * pow2(i), probs.len() >= pow2(n),
    ensures match sp_tree(rc, probs, n, i, m, upd) {
        Some((m2, r2, p2)) => rc_ok(r2) && probs_ok(p2) && p2.len() == probs.len() && rc_le(r2, rc) && rc_adv(rc, r2)
            && pow2(n) <= m2 < 2 * pow2(n) && (!upd ==> p2 == probs) && (i < n ==> rc_lt(r2, rc)),
        None => true,
    },
    decreases n - i
{
    lemma_pow2(i);
    if i >= n {
        assert(rc.inp.skip(0) =~= rc.inp);
        assert(i == n);
    } else {
        lemma_pow2_mono(i + 1, n);
        assert(m < probs.len());
        lemma_sp_bit(rc, probs[m as int], upd);
        match sp_bit(rc, probs[m as int], upd) {
            None => {},
            Some((b, r2, p2)) => {
                let pr2 = probs.update(m as int, p2);
                let m2 = 2 * m + (if b { 1nat } else { 0nat });
                assert(probs_ok(pr2));
                if !upd { assert(pr2 =~= probs); }
                lemma_sp_tree(r2, pr2, n, i + 1, m2, upd);
                match sp_tree(r2, pr2, n, i + 1, m2, upd) {
                    None => {},
                    Some((m3, r3, p3)) => { lemma_rc_adv_trans(rc, r2, r3); }
                }
            }
        }
    }
}

pub proof fn lemma_pow2_mono(i: nat, n: nat)
    requires i <= n,
    ensures pow2(i) <= pow2(n),
    decreases n - i
{
    if i < n { lemma_pow2_mono(i + 1, n); lemma_pow2(i); }
}

pub proof fn lemma_shl_pow2(i: nat)
    requires i <= 8,
    ensures (1u32 << i) == pow2(i),
{
    lemma_pow2(i);
    assert((1u32 << 0) == 1) by (bit_vector);
    assert((1u32 << 1) == 2) by (bit_vector);
    assert((1u32 << 2) == 4) by (bit_vector);
    assert((1u32 << 3) == 8) by (bit_vector);
    assert((1u32 << 4) == 16) by (bit_vector);
    assert((1u32 << 5) == 32) by (bit_vector);
    assert((1u32 << 6) == 64) by (bit_vector);
    assert((1u32 << 7) == 128) by (bit_vector);
    assert((1u32 << 8) == 256) by (bit_vector);
}

/// x < 2^i  ==>  x ^ 2^i == x + 2^i   (setting a bit that is known to be clear)
pub proof fn lemma_xor_add_pow2(x: u32, i: nat)
    requires i <= 8, x < pow2(i),
    ensures (x ^ (pow2(i) as u32)) == x + pow2(i), (x ^ 0u32) == x,
{
    lemma_shl_pow2(i);
    let iu: u32 = i as u32;
    let p: u32 = 1u32 << iu;
    assert((x ^ p) == x + p) by (bit_vector) requires iu <= 8, p == 1u32 << iu, x < p;
    assert((x ^ 0u32) == x) by (bit_vector);
}

pub proof fn lemma_pow2_inj(a: nat, b: nat)
    ensures a == b <==> pow2(a) == pow2(b),
    decreases a + b
{
    lemma_pow2(a); lemma_pow2(b);
    if a < b { lemma_pow2_mono(a + 1, b); } else if b < a { lemma_pow2_mono(b + 1, a); }
}

/// structural facts of a bit-tree decode that do not depend on the coder registers
pub proof fn lemma_sp_tree_range(rc: Rc, probs: Seq<u16>, n: nat, i: nat, m: nat, upd: bool)
    requires i <= n, pow2(i) <= m < 2 * pow2(i), probs.len() >= pow2(n),
    ensures match sp_tree(rc, probs, n, i, m, upd) {
        Some((m2, r2, p2)) => p2.len() == probs.len() && pow2(n) <= m2 < 2 * pow2(n) && (!upd ==> p2 == probs)
            && (probs_ok(probs) ==> probs_ok(p2)),
        None => true,
    },
    decreases n - i
{
    lemma_pow2(i);
    if i < n {
        lemma_pow2_mono(i + 1, n);
        match sp_bit(rc, probs[m as int], upd) {
            None => {},
            Some((b, r2, p2)) => {
                let pr2 = probs.update(m as int, p2);
                let m2 = 2 * m + (if b { 1nat } else { 0nat });
                if !upd { assert(pr2 =~= probs); }
                if probs_ok(probs) { lemma_prob(probs[m as int]); assert(probs_ok(pr2)); }
                lemma_sp_tree_range(r2, pr2, n, i + 1, m2, upd);
            }
        }
    }
}

pub proof fn lemma_sp_rev_tree_range(rc: Rc, probs: Seq<u16>, off: nat, n: nat, i: nat, m: nat, sym: nat, upd: bool)
    requires i <= n, pow2(i) <= m < 2 * pow2(i), sym < pow2(i), probs.len() >= off + pow2(n),
    ensures match sp_rev_tree(rc, probs, off, n, i, m, sym, upd) {
        Some((v, r2, p2)) => p2.len() == probs.len() && v < pow2(n) && (!upd ==> p2 == probs)
            && (probs_ok(probs) ==> probs_ok(p2)),
        None => true,
    },
    decreases n - i
{
    lemma_pow2(i);
    if i < n {
        lemma_pow2_mono(i + 1, n);
        match sp_bit(rc, probs[(off + m) as int], upd) {
            None => {},
            Some((b, r2, p2)) => {
                let pr2 = probs.update((off + m) as int, p2);
                if !upd { assert(pr2 =~= probs); }
                if probs_ok(probs) { lemma_prob(probs[(off + m) as int]); assert(probs_ok(pr2)); }
                lemma_sp_rev_tree_range(r2, pr2, off, n, i + 1, 2 * m + (if b { 1nat } else { 0nat }),
                    sym + (if b { pow2(i) } else { 0nat }), upd);
            }
        }
    }
}

pub proof fn lemma_shl64(k: nat)
    requires k < 64,
    ensures (1u64 << k) == pow2(k), (1usize << k) == pow2(k),
    decreases k
{
    lemma_pow2(k);
    if k == 0 {
        assert((1u64 << 0) == 1) by (bit_vector);
        assert((1usize << 0) == 1) by (bit_vector);
    } else {
        lemma_shl64((k - 1) as nat);
        lemma_pow2((k - 1) as nat);
        let k1: u64 = (k - 1) as u64;
        assert((1u64 << ((k1 + 1) as u64)) == 2 * (1u64 << k1)) by (bit_vector) requires k1 < 63;
        let k2: usize = (k - 1) as usize;
        assert((1usize << ((k2 + 1) as usize)) == 2 * (1usize << k2)) by (bit_vector) requires k2 < 63;
    }
}

/// arithmetic of the distance-slot decoding (kStartPosModelIndex = 4, kEndPosModelIndex = 14)
pub proof fn lemma_dist_base(s: usize)
    requires 4 <= s < 64,
    ensures ({
        let ndb: usize = ((s >> 1) - 1) as usize;
        let base: usize = (2usize ^ (s & 1)) << ndb;
        &&& (s >> 1) >= 2 && ndb == s / 2 - 1 && 1 <= ndb <= 30
        &&& (s & 1) == s % 2
        &&& base == (2 + s % 2) * pow2(ndb as nat)
        &&& base >= s && base <= 0xC000_0000
        &&& (s < 14 ==> ndb <= 5 && base - s + pow2(ndb as nat) <= 115)
        &&& (s >= 14 ==> ndb >= 6)
    }),
{
    let ndb: usize = ((s >> 1) - 1) as usize;
    let base: usize = (2usize ^ (s & 1)) << ndb;
    assert((s >> 1) == s / 2 && (s & 1) == s % 2) by (bit_vector);
    assert((s >> 1) >= 2) by (bit_vector) requires 4 <= s < 64;
    assert(ndb == s / 2 - 1 && 1 <= ndb && ndb <= 30) by (bit_vector) requires 4 <= s < 64, ndb == (s >> 1) - 1;
    let p: usize = 1usize << ndb;
    assert(base == (2 + s % 2) * p && base >= s && base <= 0xC000_0000usize) by (bit_vector)
        requires 4 <= s < 64, ndb == (s >> 1) - 1, base == (2usize ^ (s & 1)) << ndb, p == 1usize << ndb;
    lemma_shl64(ndb as nat);
    if s < 14 {
        assert(ndb <= 5 && base - s + p <= 115) by (bit_vector)
            requires 4 <= s < 14, ndb == (s >> 1) - 1, base == (2usize ^ (s & 1)) << ndb, p == 1usize << ndb;
    } else {
        assert(ndb >= 6) by (bit_vector) requires 14 <= s < 64, ndb == (s >> 1) - 1;
    }
}

pub proof fn lemma_shl4(d: u32)
    ensures ((d as usize) << 4) == (d as nat) * 16,
{
    let x = d as usize;
    assert((x << 4) == x * 16) by (bit_vector) requires x <= 0xFFFF_FFFFusize;
}

/// litState arithmetic: the machine expression equals the format formula and indexes the table
pub proof fn lemma_lit_state(len: usize, lp: u32, lc: u32, prev: usize)
    requires lp <= 4, lc <= 8, prev < 256,
    ensures ({
        let ls: usize = (((len & (((1usize << lp) - 1) as usize)) << lc) + (prev >> ((8 - lc) as u32))) as usize;
        &&& (1usize << lp) >= 1
        &&& ((len & (((1usize << lp) - 1) as usize)) << lc) + (prev >> ((8 - lc) as u32)) < pow2((lc + lp) as nat)
        &&& ls == sp_lit_state(lc as nat, lp as nat, len as nat, prev as nat)
    }),
{
    let a: usize = 1usize << lp;
    let b: usize = 1usize << lc;
    let c: usize = 1usize << ((8 - lc) as u32);
    let d: usize = 1usize << ((lc + lp) as u32);
    lemma_shl64(lp as nat); lemma_shl64(lc as nat); lemma_shl64((8 - lc) as nat); lemma_shl64((lc + lp) as nat);
    let x: usize = len & ((a - 1) as usize);
    assert(a >= 1 && a <= 16 && x == len % a && x < a) by (bit_vector) requires lp <= 4, a == 1usize << lp, x == len & ((a - 1) as usize);
    let y: usize = x << lc;
    assert(y == x * b) by (bit_vector) requires lc <= 8, x < 16, b == 1usize << lc, y == x << lc;
    let sh: u32 = (8 - lc) as u32;
    let z: usize = prev >> sh;
    assert(z == prev / c && z < b) by (bit_vector) requires lc <= 8, sh == 8 - lc, prev < 256, c == 1usize << sh, b == 1usize << lc, z == prev >> sh;
    assert(d == a * b) by (bit_vector) requires lc <= 8, lp <= 4, a == 1usize << lp, b == 1usize << lc, d == 1usize << ((lc + lp) as u32);
    assert(x * b + z < a * b) by (nonlinear_arith) requires x < a, z < b, x >= 0, z >= 0;
}

pub proof fn lemma_match_bit(mb: usize, result: usize)
    requires mb < 0x100 * result, 1 <= result < 0x100,
    ensures ({
        let bit: usize = (mb >> 7) & 1;
        &&& bit == (mb as nat / 128) % 2 && bit <= 1
        &&& (mb << 1) == mb * 2
        &&& (((1 + bit) as usize) << 8) + result == (1 + bit) * 256 + result
        &&& (((1 + bit) as usize) << 8) + result < 0x300
    }),
{
    let bit: usize = (mb >> 7) & 1;
    assert(bit == (mb / 128) % 2 && bit <= 1 && (mb << 1) == mb * 2) by (bit_vector) requires mb < 0x10000, bit == (mb >> 7) & 1;
    let o: usize = (1 + bit) as usize;
    assert((o << 8) == o * 256) by (bit_vector) requires o <= 2;
}

pub proof fn lemma_shl1_xor(r: usize, b: bool)
    requires r < 0x100,
    ensures ((r << 1) ^ (if b { 1usize } else { 0usize })) == 2 * r + (if b { 1nat } else { 0nat }),
        ((r << 1) | (if b { 1usize } else { 0usize })) == 2 * r + (if b { 1nat } else { 0nat }),   // the same step written with `|`
{
    let bu: usize = if b { 1usize } else { 0usize };
    assert(((r << 1) ^ bu) == 2 * r + bu && ((r << 1) | bu) == 2 * r + bu) by (bit_vector) requires r < 0x100, bu <= 1;
}
