// =============================================================================================
// Spec validation: the format specification functions are EXECUTED (by(compute)) on byte vectors produced by
// the reference implementation's format (here: the .lzma file for the single byte "a" with end marker, as written by
// lzma_compress and accepted by liblzma).  This pins the transcription of the format document to real files.
// =============================================================================================

pub open spec fn vec_a_payload() -> Seq<u8> {
    seq![0x00u8, 0x30u8, 0xc1u8, 0xfbu8, 0xffu8, 0xffu8, 0xffu8, 0xe0u8, 0x00u8, 0x00u8, 0x00u8]
}

pub proof fn vector_a_first_bits()
    ensures ({
        // preamble: Range = 0xFFFFFFFF, Code = 0x30c1fbff; first symbol of "a": is_match bit = 0 (literal)
        let rc = Rc { range: 0xFFFF_FFFFu32, code: be32(vec_a_payload().skip(1)), inp: vec_a_payload().skip(5) };
        &&& rc.code == 0x30c1_fbffu32
        &&& sp_bit(rc, 0x400u16, true) matches Some((b, r2, p2)) && !b && p2 == 0x420u16 && r2.range == 0x7FFF_FC00u32
    }),
{
    let rc = Rc { range: 0xFFFF_FFFFu32, code: be32(vec_a_payload().skip(1)), inp: vec_a_payload().skip(5) };
    assert(be32(vec_a_payload().skip(1)) == 0x30c1_fbffu32) by (compute);
    assert(((0xFFFF_FFFFu32 >> 11) * 0x400u32) as u32 == 0x7FFF_FC00u32) by (compute);
    assert(sp_prob_after(0x400u16, false, true) == 0x420u16) by (compute);
}

// (Executing a whole symbol with by(compute) does not terminate in reasonable time: the model tables are closures over
// Seq::new; only register-level vectors are checked here.)
