// =============================================================================================
// Format specification, part 4g: when the streaming decoder gives up, the one-shot decoder does too.
// A real symbol step is only attempted on >= 20 bytes or after a successful dry run (PM.step.justified).
// If it then fails, it fails on every longer input as well: a success on the longer input would consume at most
// 20 bytes (26_symbol_bound) resp. exactly the bytes of the dry run (27_dry_run), all of which the shorter input
// has, so by input locality (23_stream_lemmas) it would succeed on the shorter input too.
// =============================================================================================

pub proof fn lemma_step_none_stable(rc: Rc, m: LzS, w: Win, h: Seq<u8>)
    requires run_pre(rc, m, w), sp_step(rc, m, w, true) is None,
        rc.inp.len() >= 20 || sp_step(rc, m, w, false) is Some,
    ensures sp_step(rcw(rc, rc.inp + h), m, w, true) is None,
{
    let x = rc.inp;
    let rl = rcw(rc, x + h);
    if sp_step(rl, m, w, true) is Some {
        let res = sp_step(rl, m, w, true).unwrap();
        let k = used(rl, res.1);
        lemma_symbol_needs_at_most_20_bytes(rl, m, w, true);
        lemma_repl_step(rl, m, w, true, x);
        // k <= |x| in both cases
        if x.len() < 20 {
            let rf = sp_step(rc, m, w, false).unwrap();
            let kd = used(rc, rf.1);
            lemma_repl_step(rc, m, w, false, x + h);
            assert(agree(x, x + h, kd));
            assert(sp_step(rl, m, w, false) == step_over(rf, rc, x + h));
            lemma_dry_step(rl, m, w);
            assert(k == kd);
        }
        assert(k <= x.len());
        assert(agree(x + h, x, k));
        assert(rcw(rl, x) == rc);
        // a success on the long input restricted to the short one is a success on the short one
        if res.0 is Finished {
            assert(res.1.inp.len() == 0);
            assert(k == (x + h).len());
        }
        assert(sp_step(rc, m, w, true) == step_over(res, rl, x));
        assert(false);
    }
}

/// every completion of the input offered is rejected by the one-shot spec decoder
#[verifier::opaque]
pub open spec fn dead_end(rc: Rc, m: LzS, w: Win, size: Option<u64>) -> bool {
    forall|g: Seq<u8>| #[trigger] sp_run(rcw(rc, rc.inp + g), m, w, size) is None
}

pub proof fn lemma_dead_end_use(rc: Rc, m: LzS, w: Win, size: Option<u64>, g: Seq<u8>)
    requires dead_end(rc, m, w, size),
    ensures sp_run(rcw(rc, rc.inp + g), m, w, size) is None, run_out(rcw(rc, rc.inp + g), m, w, size) is None,
{
    reveal(dead_end);
}

/// a failing guarded step at a configuration that the spec does not stop at is a dead end
pub proof fn lemma_dead_end_step(rc: Rc, m: LzS, w: Win, size: Option<u64>)
    requires run_pre(rc, m, w), sp_step(rc, m, w, true) is None, size_open(size, w),
        rc.inp.len() >= 20 || sp_step(rc, m, w, false) is Some,
        size is None ==> rc.code != 0 || rc.inp.len() > 0,
    ensures dead_end(rc, m, w, size),
{
    reveal(dead_end);
    assert forall|g: Seq<u8>| #[trigger] sp_run(rcw(rc, rc.inp + g), m, w, size) is None by {
        lemma_step_none_stable(rc, m, w, g);
        let rl = rcw(rc, rc.inp + g);
        assert(run_pre(rl, m, w));
        assert(size is None ==> !markerless_stop(rl));
    }
}

/// dead ends travel backwards along the decoding path
pub proof fn lemma_dead_end_path(ra: Rc, ma: LzS, wa: Win, rb: Rc, mb: LzS, wb: Win, size: Option<u64>, strict: bool, tail: Seq<u8>)
    requires path_eq(ra, ma, wa, rb, mb, wb, size, strict, tail), dead_end(rcw(rb, rb.inp + tail), mb, wb, size),
    ensures dead_end(rcw(ra, ra.inp + tail), ma, wa, size),
{
    reveal(dead_end);
    reveal(path_eq);
    assert forall|g: Seq<u8>| #[trigger] sp_run(rcw(rcw(ra, ra.inp + tail), (ra.inp + tail) + g), ma, wa, size) is None by {
        let g2 = tail + g;
        assert(tail.is_prefix_of(g2)) by { assert(tail =~= g2.take(tail.len() as int)); }
        assert(g_ok(strict, tail, g2));
        assert((ra.inp + tail) + g =~= ra.inp + g2);
        assert((rb.inp + tail) + g =~= rb.inp + g2);
        assert(sp_run(rcw(ra, ra.inp + g2), ma, wa, size) == sp_run(rcw(rb, rb.inp + g2), mb, wb, size));
        assert(sp_run(rcw(rcw(rb, rb.inp + tail), (rb.inp + tail) + g), mb, wb, size) is None);
    }
}

/// ... and along the output-equivalence used by the stream invariant
pub proof fn lemma_dead_end_out(ra: Rc, ma: LzS, wa: Win, rb: Rc, mb: LzS, wb: Win, size: Option<u64>, x: Seq<u8>, g: Seq<u8>)
    requires out_eq(ra, ma, wa, rb, mb, wb, size), dead_end(rcw(rb, rb.inp + x), mb, wb, size),
    ensures run_out(rcw(ra, ra.inp + (x + g)), ma, wa, size) is None,
{
    reveal(dead_end);
    reveal(out_eq);
    let g2 = x + g;
    assert((rb.inp + x) + g =~= rb.inp + g2);
    assert(sp_run(rcw(rcw(rb, rb.inp + x), (rb.inp + x) + g), mb, wb, size) is None);
    assert(run_out(rcw(ra, ra.inp + g2), ma, wa, size) == run_out(rcw(rb, rb.inp + g2), mb, wb, size));
}

/// a dead end stays one when more of the continuation is already known
pub proof fn lemma_dead_end_ext(rc: Rc, m: LzS, w: Win, size: Option<u64>, x: Seq<u8>)
    requires dead_end(rc, m, w, size),
    ensures dead_end(rcw(rc, rc.inp + x), m, w, size),
{
    reveal(dead_end);
    assert forall|g: Seq<u8>| #[trigger] sp_run(rcw(rcw(rc, rc.inp + x), (rc.inp + x) + g), m, w, size) is None by {
        assert((rc.inp + x) + g =~= rc.inp + (x + g));
        assert(sp_run(rcw(rc, rc.inp + (x + g)), m, w, size) is None);
    }
}
