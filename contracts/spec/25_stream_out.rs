// =============================================================================================
// Format specification, part 4d: what the streaming decoder owes its caller.  `run_out` is the
// verdict and the output of the one-shot spec run; `out_eq` says that a configuration holding the
// pending bytes b.inp decodes, under every continuation, to the same verdict and output as the
// configuration a that was given a.inp.  (path_eq is the same relation on full final states and is
// what DecoderState::process_mode proves; out_eq forgets the final coder state, which lets input
// that arrives after the stream is complete be dropped.)
// =============================================================================================

pub open spec fn run_out(rc: Rc, m: LzS, w: Win, size: Option<u64>) -> Option<Seq<u8>> {
    match sp_run(rc, m, w, size) { Some((r2, m2, w2)) => Some(w2.out), None => None }
}

#[verifier::opaque]
pub open spec fn out_eq(ra: Rc, ma: LzS, wa: Win, rb: Rc, mb: LzS, wb: Win, size: Option<u64>) -> bool {
    forall|g: Seq<u8>| #[trigger] run_out(rcw(ra, ra.inp + g), ma, wa, size) == run_out(rcw(rb, rb.inp + g), mb, wb, size)
}

pub proof fn lemma_out_refl(r: Rc, m: LzS, w: Win, size: Option<u64>)
    ensures out_eq(r, m, w, r, m, w, size),
{
    reveal(out_eq);
}

pub proof fn lemma_out_trans(ra: Rc, ma: LzS, wa: Win, rb: Rc, mb: LzS, wb: Win, rc: Rc, mc: LzS, wc: Win, size: Option<u64>)
    requires out_eq(ra, ma, wa, rb, mb, wb, size), out_eq(rb, mb, wb, rc, mc, wc, size),
    ensures out_eq(ra, ma, wa, rc, mc, wc, size),
{
    reveal(out_eq);
    assert forall|g: Seq<u8>| #[trigger] run_out(rcw(ra, ra.inp + g), ma, wa, size) == run_out(rcw(rc, rc.inp + g), mc, wc, size) by {
        assert(run_out(rcw(ra, ra.inp + g), ma, wa, size) == run_out(rcw(rb, rb.inp + g), mb, wb, size));
    }
}

pub proof fn lemma_out_from_path(ra: Rc, ma: LzS, wa: Win, rb: Rc, mb: LzS, wb: Win, size: Option<u64>, tail: Seq<u8>)
    requires path_eq(ra, ma, wa, rb, mb, wb, size, true, tail),
    ensures out_eq(ra, ma, wa, rb, mb, wb, size),
{
    reveal(out_eq);
    reveal(path_eq);
    assert forall|g: Seq<u8>| #[trigger] run_out(rcw(ra, ra.inp + g), ma, wa, size) == run_out(rcw(rb, rb.inp + g), mb, wb, size) by {
        assert(g_ok(true, tail, g));
        assert(sp_run(rcw(ra, ra.inp + g), ma, wa, size) == sp_run(rcw(rb, rb.inp + g), mb, wb, size));
    }
}

/// both sides are given the same further bytes x
pub proof fn lemma_out_take(ra: Rc, ma: LzS, wa: Win, rb: Rc, mb: LzS, wb: Win, size: Option<u64>, x: Seq<u8>)
    requires out_eq(ra, ma, wa, rb, mb, wb, size),
    ensures out_eq(rcw(ra, ra.inp + x), ma, wa, rcw(rb, rb.inp + x), mb, wb, size),
{
    reveal(out_eq);
    assert forall|g: Seq<u8>| #[trigger] run_out(rcw(rcw(ra, ra.inp + x), (ra.inp + x) + g), ma, wa, size)
            == run_out(rcw(rcw(rb, rb.inp + x), (rb.inp + x) + g), mb, wb, size) by {
        let g0 = x + g;
        assert((ra.inp + x) + g =~= ra.inp + g0);
        assert((rb.inp + x) + g =~= rb.inp + g0);
        assert(run_out(rcw(ra, ra.inp + g0), ma, wa, size) == run_out(rcw(rb, rb.inp + g0), mb, wb, size));
    }
}

/// once the size in effect has been produced, verdict and output no longer depend on the input
pub proof fn lemma_out_done(rb: Rc, mb: LzS, wb: Win, size: Option<u64>, b1: Seq<u8>, b2: Seq<u8>)
    requires run_pre(rb, mb, wb), size matches Some(n) && wb.hist >= n,
    ensures out_eq(rcw(rb, b1), mb, wb, rcw(rb, b2), mb, wb, size),
{
    reveal(out_eq);
    assert forall|g: Seq<u8>| #[trigger] run_out(rcw(rcw(rb, b1), b1 + g), mb, wb, size) == run_out(rcw(rcw(rb, b2), b2 + g), mb, wb, size) by {
        assert(run_pre(rcw(rb, b1 + g), mb, wb));
        assert(run_pre(rcw(rb, b2 + g), mb, wb));
    }
}

/// the empty continuation: the verdict when the input ends here
pub proof fn lemma_out_final(ra: Rc, ma: LzS, wa: Win, rb: Rc, mb: LzS, wb: Win, size: Option<u64>)
    requires out_eq(ra, ma, wa, rb, mb, wb, size),
    ensures run_out(ra, ma, wa, size) == run_out(rb, mb, wb, size),
{
    reveal(out_eq);
    let g = Seq::<u8>::empty();
    assert(ra.inp + g =~= ra.inp);
    assert(rb.inp + g =~= rb.inp);
    assert(run_out(rcw(ra, ra.inp + g), ma, wa, size) == run_out(rcw(rb, rb.inp + g), mb, wb, size));
    assert(rcw(ra, ra.inp) == ra);
    assert(rcw(rb, rb.inp) == rb);
}

/// C15: whatever the rest of the stream is, everything produced so far is a prefix of the final output
pub proof fn lemma_out_prefix(ra: Rc, ma: LzS, wa: Win, rb: Rc, mb: LzS, wb: Win, size: Option<u64>, g: Seq<u8>)
    requires out_eq(ra, ma, wa, rb, mb, wb, size), run_pre(rb, mb, wb),
    ensures match run_out(rcw(ra, ra.inp + g), ma, wa, size) { Some(out) => wb.out.is_prefix_of(out), None => true },
{
    reveal(out_eq);
    assert(run_out(rcw(ra, ra.inp + g), ma, wa, size) == run_out(rcw(rb, rb.inp + g), mb, wb, size));
    assert(run_pre(rcw(rb, rb.inp + g), mb, wb));
    lemma_run_extends(rcw(rb, rb.inp + g), mb, wb, size);
}
