// =============================================================================================
// Format specification, part 4f: a DRY RUN READS THE SAME BITS.
// lzma-rs decides whether a symbol can be decoded from the bytes at hand by decoding it once without
// updating anything (update = false) and then for real.  Within one symbol no probability slot is read
// after it was written (bit trees walk down, the literal coder's index grows, every array is visited
// once), so both runs see the same probabilities, decode the same bits and consume the same bytes.
// =============================================================================================

/// the two probability arrays agree from index `from` on
pub open spec fn agree_from(a: Seq<u16>, b: Seq<u16>, from: nat) -> bool {
    a.len() == b.len() && forall|j: int| from <= j < a.len() ==> a[j] == b[j]
}
/// literal coder: agreement on every slot whose symbol part (index mod 256) is at least `symbol`
pub open spec fn agree_lit(a: Seq<u16>, b: Seq<u16>, symbol: nat) -> bool {
    a.len() == b.len() && forall|j: int| 0 <= j < a.len() && (j % 256) >= symbol ==> a[j] == b[j]
}

pub proof fn lemma_dry_bit(rc: Rc, prob: u16)
    ensures match (sp_bit(rc, prob, true), sp_bit(rc, prob, false)) {
        (Some((b1, r1, p1)), Some((b2, r2, p2))) => b1 == b2 && r1 == r2 && p2 == prob,
        (None, None) => true,
        _ => false,
    },
{
}

pub proof fn lemma_dry_tree(rc: Rc, pa: Seq<u16>, pb: Seq<u16>, n: nat, i: nat, m: nat)
    requires agree_from(pa, pb, m), m >= 1,
    ensures match (sp_tree(rc, pa, n, i, m, true), sp_tree(rc, pb, n, i, m, false)) {
        (Some((m1, r1, q1)), Some((m2, r2, q2))) => m1 == m2 && r1 == r2,
        (None, None) => true,
        _ => false,
    },
    decreases n - i
{
    if i >= n {
    } else if m >= pa.len() {
    } else {
        lemma_dry_bit(rc, pa[m as int]);
        match sp_bit(rc, pa[m as int], true) {
            None => {},
            Some((b, r1, p1)) => {
                let m1 = 2 * m + (if b { 1nat } else { 0nat });
                let pa1 = pa.update(m as int, p1);
                let pb1 = pb.update(m as int, pb[m as int]);
                assert(pb1 =~= pb);
                lemma_dry_tree(r1, pa1, pb1, n, i + 1, m1);
            }
        }
    }
}

pub proof fn lemma_dry_rev_tree(rc: Rc, pa: Seq<u16>, pb: Seq<u16>, off: nat, n: nat, i: nat, m: nat, sym: nat)
    requires agree_from(pa, pb, off + m), m >= 1,
    ensures match (sp_rev_tree(rc, pa, off, n, i, m, sym, true), sp_rev_tree(rc, pb, off, n, i, m, sym, false)) {
        (Some((v1, r1, q1)), Some((v2, r2, q2))) => v1 == v2 && r1 == r2,
        (None, None) => true,
        _ => false,
    },
    decreases n - i
{
    if i >= n {
    } else if off + m >= pa.len() {
    } else {
        let ix = (off + m) as int;
        lemma_dry_bit(rc, pa[ix]);
        match sp_bit(rc, pa[ix], true) {
            None => {},
            Some((b, r1, p1)) => {
                let m1 = 2 * m + (if b { 1nat } else { 0nat });
                let sym1 = sym + (if b { pow2(i) } else { 0nat });
                let pa1 = pa.update(ix, p1);
                let pb1 = pb.update(ix, pb[ix]);
                assert(pb1 =~= pb);
                lemma_dry_rev_tree(r1, pa1, pb1, off, n, i + 1, m1, sym1);
            }
        }
    }
}

pub proof fn lemma_dry_lit_plain(rc: Rc, pa: Seq<u16>, pb: Seq<u16>, symbol: nat)
    requires agree_lit(pa, pb, symbol), pa.len() == 0x300,
    ensures match (sp_lit_plain(rc, pa, symbol, true), sp_lit_plain(rc, pb, symbol, false)) {
        (Some((s1, r1, q1)), Some((s2, r2, q2))) => s1 == s2 && r1 == r2,
        (None, None) => true,
        _ => false,
    },
    decreases 0x200 - symbol
{
    if symbol >= 0x100 || symbol == 0 {
    } else {
        let ix = symbol as int;
        assert(ix % 256 == symbol);
        lemma_dry_bit(rc, pa[ix]);
        match sp_bit(rc, pa[ix], true) {
            None => {},
            Some((b, r1, p1)) => {
                let s1 = 2 * symbol + (if b { 1nat } else { 0nat });
                let pa1 = pa.update(ix, p1);
                let pb1 = pb.update(ix, pb[ix]);
                assert(pb1 =~= pb);
                assert(agree_lit(pa1, pb1, s1));
                lemma_dry_lit_plain(r1, pa1, pb1, s1);
            }
        }
    }
}

pub proof fn lemma_dry_lit_matched(rc: Rc, pa: Seq<u16>, pb: Seq<u16>, mb: nat, symbol: nat)
    requires agree_lit(pa, pb, symbol), pa.len() == 0x300,
    ensures match (sp_lit_matched(rc, pa, mb, symbol, true), sp_lit_matched(rc, pb, mb, symbol, false)) {
        (Some((s1, r1, q1)), Some((s2, r2, q2))) => s1 == s2 && r1 == r2,
        (None, None) => true,
        _ => false,
    },
    decreases 0x200 - symbol
{
    if symbol >= 0x100 || symbol == 0 {
    } else {
        let match_bit: nat = (mb / 128) % 2;
        let idx: nat = (1 + match_bit) * 256 + symbol;
        if idx < pa.len() {
            let ix = idx as int;
            assert(ix % 256 == symbol) by (nonlinear_arith) requires ix == (1 + match_bit) * 256 + symbol, symbol < 256, match_bit <= 1;
            lemma_dry_bit(rc, pa[ix]);
            match sp_bit(rc, pa[ix], true) {
                None => {},
                Some((b, r1, p1)) => {
                    let bit: nat = if b { 1 } else { 0 };
                    let pa1 = pa.update(ix, p1);
                    let pb1 = pb.update(ix, pb[ix]);
                    assert(pb1 =~= pb);
                    assert(agree_lit(pa1, pb1, 2 * symbol + bit));
                    if match_bit != bit { lemma_dry_lit_plain(r1, pa1, pb1, 2 * symbol + bit); }
                    else { lemma_dry_lit_matched(r1, pa1, pb1, mb * 2, 2 * symbol + bit); }
                }
            }
        }
    }
}

pub proof fn lemma_dry_len(rc: Rc, ld: LenS, ps: nat)
    ensures match (sp_len(rc, ld, ps, true), sp_len(rc, ld, ps, false)) {
        (Some((l1, r1, d1)), Some((l2, r2, d2))) => l1 == l2 && r1 == r2,
        (None, None) => true,
        _ => false,
    },
{
    reveal(sp_len);
    lemma_dry_bit(rc, ld.choice);
    match sp_bit(rc, ld.choice, true) {
        None => {},
        Some((b1, r1, c1)) => {
            if !b1 {
                lemma_dry_tree(r1, ld.low[ps as int], ld.low[ps as int], 3, 0, 1);
            } else {
                lemma_dry_bit(r1, ld.choice2);
                match sp_bit(r1, ld.choice2, true) {
                    None => {},
                    Some((b2, r2, c2)) => {
                        if !b2 { lemma_dry_tree(r2, ld.mid[ps as int], ld.mid[ps as int], 3, 0, 1); }
                        else { lemma_dry_tree(r2, ld.high, ld.high, 8, 0, 1); }
                    }
                }
            }
        }
    }
}

pub proof fn lemma_dry_distance(rc: Rc, ps: Seq<Seq<u16>>, pd: Seq<u16>, al: Seq<u16>, len: nat)
    ensures match (sp_distance(rc, ps, pd, al, len, true), sp_distance(rc, ps, pd, al, len, false)) {
        (Some((d1, r1, a1, b1, c1)), Some((d2, r2, a2, b2, c2))) => d1 == d2 && r1 == r2,
        (None, None) => true,
        _ => false,
    },
{
    reveal(sp_distance);
    let len_state: nat = if len > 3 { 3 } else { len };
    lemma_dry_tree(rc, ps[len_state as int], ps[len_state as int], 6, 0, 1);
    match sp_tree(rc, ps[len_state as int], 6, 0, 1, true) {
        None => {},
        Some((mm, r1, ps2)) => {
            let slot: nat = (mm - 64) as nat;
            if slot >= 4 {
                let ndb: nat = ((slot / 2) - 1) as nat;
                let base: nat = (2 + slot % 2) * pow2(ndb);
                if slot < 14 {
                    lemma_dry_rev_tree(r1, pd, pd, (base - slot) as nat, ndb, 0, 1, 0);
                } else {
                    match sp_direct_bits(r1, (ndb - 4) as nat, 0, 0) {
                        None => {},
                        Some((dd, r2)) => { lemma_dry_rev_tree(r2, al, al, 0, 4, 0, 1, 0); }
                    }
                }
            }
        }
    }
}

/// the literal coder reads only lc, lp, the literal tables, the state and rep0 of the model
pub proof fn lemma_dry_literal(rc: Rc, mt: LzS, mf: LzS, w: Win)
    requires mt.lit == mf.lit, mt.lc == mf.lc, mt.lp == mf.lp, mt.state == mf.state, mt.rep == mf.rep,
        forall|i: int| 0 <= i < mt.lit.len() ==> (#[trigger] mt.lit[i]).len() == 0x300,
    ensures match (sp_literal(rc, mt, w, true), sp_literal(rc, mf, w, false)) {
        (Some((x1, r1, n1)), Some((x2, r2, n2))) => x1 == x2 && r1 == r2,
        (None, None) => true,
        _ => false,
    },
{
    reveal(sp_literal);
    let ls = sp_lit_state(mt.lc, mt.lp, w.hist, win_prev(w));
    if ls < mt.lit.len() {
        let probs = mt.lit[ls as int];
        if mt.state >= 7 {
            if dist_ok(mt.rep[0] + 1, w.hist, w.maxd) {
                lemma_dry_lit_matched(rc, probs, probs, w.out[w.out.len() - (mt.rep[0] + 1)] as nat, 1);
            }
        } else {
            lemma_dry_lit_plain(rc, probs, probs, 1);
        }
    }
}

/// result of the real run determined by the dry run: whenever the real run succeeds, so does the dry run, with the
/// same coder state afterwards (same bits, same bytes consumed)
pub open spec fn dry_agrees(t: Option<(StepStatus, Rc, LzS, Win)>, f: Option<(StepStatus, Rc, LzS, Win)>) -> bool {
    t is Some ==> f is Some && f.unwrap().1 == t.unwrap().1
}

pub proof fn lemma_dry_step_replen(rc: Rc, mt: LzS, mf: LzS, w: Win, ps: nat)
    requires mt.rep_len == mf.rep_len,
    ensures dry_agrees(sp_step_replen(rc, mt, w, ps, true), sp_step_replen(rc, mf, w, ps, false)),
{
    reveal(sp_step_replen);
    lemma_dry_len(rc, mt.rep_len, ps);
}

pub proof fn lemma_dry_step_match(rc: Rc, mt: LzS, mf: LzS, w: Win, ps: nat)
    requires mt.len == mf.len, mt.pos_slot == mf.pos_slot, mt.pos_decoders == mf.pos_decoders, mt.align == mf.align,
    ensures dry_agrees(sp_step_match(rc, mt, w, ps, true), sp_step_match(rc, mf, w, ps, false)),
{
    reveal(sp_step_match);
    lemma_dry_len(rc, mt.len, ps);
    match sp_len(rc, mt.len, ps, true) {
        None => {},
        Some((l, r1, ld2)) => {
            lemma_dry_distance(r1, mt.pos_slot, mt.pos_decoders, mt.align, l);
        }
    }
}

pub proof fn lemma_dry_step_rep(rc: Rc, mt: LzS, mf: LzS, w: Win, ps: nat)
    requires mt.is_rep_g0 == mf.is_rep_g0, mt.is_rep0_long == mf.is_rep0_long, mt.is_rep_g1 == mf.is_rep_g1,
        mt.is_rep_g2 == mf.is_rep_g2, mt.rep_len == mf.rep_len, mt.state == mf.state,
    ensures dry_agrees(sp_step_rep(rc, mt, w, ps, true), sp_step_rep(rc, mf, w, ps, false)),
{
    reveal(sp_step_rep);
    let s = mt.state;
    lemma_dry_bit(rc, mt.is_rep_g0[s as int]);
    match sp_bit(rc, mt.is_rep_g0[s as int], true) {
        None => {},
        Some((b_g0, r1, p1)) => {
            let m1t = LzS { is_rep_g0: mt.is_rep_g0.update(s as int, p1), ..mt };
            let m1f = LzS { is_rep_g0: mf.is_rep_g0.update(s as int, mf.is_rep_g0[s as int]), ..mf };
            if !b_g0 {
                let i0: nat = s * 16 + ps;
                lemma_dry_bit(r1, mt.is_rep0_long[i0 as int]);
                match sp_bit(r1, mt.is_rep0_long[i0 as int], true) {
                    None => {},
                    Some((b_long, r2, p2)) => {
                        if b_long {
                            let m2t = LzS { is_rep0_long: m1t.is_rep0_long.update(i0 as int, p2), ..m1t };
                            let m2f = LzS { is_rep0_long: m1f.is_rep0_long.update(i0 as int, m1f.is_rep0_long[i0 as int]), ..m1f };
                            lemma_dry_step_replen(r2, m2t, m2f, w, ps);
                        }
                    }
                }
            } else {
                lemma_dry_bit(r1, mt.is_rep_g1[s as int]);
                match sp_bit(r1, mt.is_rep_g1[s as int], true) {
                    None => {},
                    Some((b_g1, r2, p2)) => {
                        let m2t = LzS { is_rep_g1: m1t.is_rep_g1.update(s as int, p2), ..m1t };
                        let m2f = LzS { is_rep_g1: m1f.is_rep_g1.update(s as int, m1f.is_rep_g1[s as int]), ..m1f };
                        if !b_g1 {
                            let m3t = LzS { rep: seq![mt.rep[1], mt.rep[0], mt.rep[2], mt.rep[3]], ..m2t };
                            lemma_dry_step_replen(r2, m3t, m2f, w, ps);
                        } else {
                            lemma_dry_bit(r2, mt.is_rep_g2[s as int]);
                            match sp_bit(r2, mt.is_rep_g2[s as int], true) {
                                None => {},
                                Some((b_g2, r3, p3)) => {
                                    let m3t = LzS { is_rep_g2: m2t.is_rep_g2.update(s as int, p3), ..m2t };
                                    let m3f = LzS { is_rep_g2: m2f.is_rep_g2.update(s as int, m2f.is_rep_g2[s as int]), ..m2f };
                                    let m4t = if !b_g2 { LzS { rep: seq![mt.rep[2], mt.rep[0], mt.rep[1], mt.rep[3]], ..m3t } }
                                        else { LzS { rep: seq![mt.rep[3], mt.rep[0], mt.rep[1], mt.rep[2]], ..m3t } };
                                    lemma_dry_step_replen(r3, m4t, m3f, w, ps);
                                }
                            }
                        }
                    }
                }
            }
        }
    }
}

/// THE AGREEMENT: if the real decoding of a symbol succeeds on some input, the dry run on the same input succeeds too
/// and leaves the coder in the same state (so it consumed the same number of bytes)
pub proof fn lemma_dry_step(rc: Rc, m: LzS, w: Win)
    requires lzs_ok(m),
    ensures dry_agrees(sp_step(rc, m, w, true), sp_step(rc, m, w, false)),
{
    let pos_state: nat = w.hist % pow2(m.pb);
    let i_match: nat = m.state * 16 + pos_state;
    lemma_dry_bit(rc, m.is_match[i_match as int]);
    match sp_bit(rc, m.is_match[i_match as int], true) {
        None => {},
        Some((b_match, r1, p1)) => {
            let m1t = LzS { is_match: m.is_match.update(i_match as int, p1), ..m };
            let m1f = LzS { is_match: m.is_match.update(i_match as int, m.is_match[i_match as int]), ..m };
            if !b_match {
                lemma_dry_literal(r1, m1t, m1f, w);
            } else {
                lemma_dry_bit(r1, m.is_rep[m.state as int]);
                match sp_bit(r1, m.is_rep[m.state as int], true) {
                    None => {},
                    Some((b_rep, r2, p2)) => {
                        let m2t = LzS { is_rep: m1t.is_rep.update(m.state as int, p2), ..m1t };
                        let m2f = LzS { is_rep: m1f.is_rep.update(m.state as int, m1f.is_rep[m.state as int]), ..m1f };
                        if b_rep { lemma_dry_step_rep(r2, m2t, m2f, w, pos_state); }
                        else { lemma_dry_step_match(r2, m2t, m2f, w, pos_state); }
                    }
                }
            }
        }
    }
}
