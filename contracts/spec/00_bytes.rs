// ---- byte-order helpers (format spec vocabulary) ---------------------------------------------
pub open spec fn be16(s: Seq<u8>) -> u16 { ((s[0] as u16) * 256 + (s[1] as u16)) as u16 }
pub open spec fn be32(s: Seq<u8>) -> u32 {
    ((s[0] as u32) * 0x100_0000 + (s[1] as u32) * 0x1_0000 + (s[2] as u32) * 0x100 + (s[3] as u32)) as u32
}
pub open spec fn le32(s: Seq<u8>) -> u32 {
    ((s[3] as u32) * 0x100_0000 + (s[2] as u32) * 0x1_0000 + (s[1] as u32) * 0x100 + (s[0] as u32)) as u32
}
pub open spec fn le64(s: Seq<u8>) -> u64 {
    ((le32(s.skip(4)) as u64) * 0x1_0000_0000 + (le32(s) as u64)) as u64
}
pub open spec fn enc_be16(v: u16) -> Seq<u8> { seq![(v / 256) as u8, (v % 256) as u8] }
pub open spec fn enc_be32(v: u32) -> Seq<u8> {
    seq![((v / 0x100_0000) % 256) as u8, ((v / 0x1_0000) % 256) as u8, ((v / 0x100) % 256) as u8, (v % 256) as u8]
}
pub open spec fn enc_le32(v: u32) -> Seq<u8> {
    seq![(v % 256) as u8, ((v / 0x100) % 256) as u8, ((v / 0x1_0000) % 256) as u8, ((v / 0x100_0000) % 256) as u8]
}
pub open spec fn enc_le64(v: u64) -> Seq<u8> {
    enc_le32((v % 0x1_0000_0000) as u32) + enc_le32((v / 0x1_0000_0000) as u32)
}

// ---- LZ77 copy: the oracle for every match (byte-by-byte, self-overlapping) -------------------
pub open spec fn lz_copy(s: Seq<u8>, len: nat, dist: int) -> Seq<u8>
    decreases len
{
    if len == 0 { s } else { lz_copy(s.push(s[s.len() - dist]), (len - 1) as nat, dist) }
}

pub proof fn lemma_lz_copy_step(s: Seq<u8>, len: nat, dist: int)
    requires 1 <= dist <= s.len(),
    ensures lz_copy(s, len + 1, dist) == lz_copy(s, len, dist).push(lz_copy(s, len, dist)[lz_copy(s, len, dist).len() - dist]),
        lz_copy(s, len, dist).len() == s.len() + len,
    decreases len
{
    reveal_with_fuel(lz_copy, 2);
    if len == 0 {
    } else {
        let s1 = s.push(s[s.len() - dist]);
        lemma_lz_copy_step(s1, (len - 1) as nat, dist);
    }
}

pub proof fn lemma_lz_copy_prefix(s: Seq<u8>, i: nat, len: nat, dist: int)
    requires 1 <= dist <= s.len(), i <= len,
    ensures lz_copy(s, i, dist).is_prefix_of(lz_copy(s, len, dist)), s.is_prefix_of(lz_copy(s, i, dist)),
    decreases len
{
    lemma_lz_copy_step(s, len, dist);
    lemma_lz_copy_step(s, i, dist);
    if len == 0 {
        assert(lz_copy(s, 0, dist) == s);
    } else {
        lemma_lz_copy_step(s, (len - 1) as nat, dist);
        assert(lz_copy(s, (len - 1) as nat, dist).is_prefix_of(lz_copy(s, len, dist)));
        if i < len {
            lemma_lz_copy_prefix(s, i, (len - 1) as nat, dist);
        } else {
            lemma_lz_copy_prefix(s, (len - 1) as nat, (len - 1) as nat, dist);
        }
    }
}

// ---- vacuity canary: this obligation MUST be reported as failing on every run -------------------
pub proof fn vacuity_canary_must_fail(x: int)
    ensures x == x + 1,   // [CANARY]
{
}

/// window actually needed after `n` bytes with dictionary size `dict` fits the memory limit
pub open spec fn mem_ok(dict: nat, memlimit: nat, n: nat) -> bool { (if n <= dict { n } else { dict }) <= memlimit }

pub broadcast proof fn lemma_skip_skip(s: Seq<u8>, a: int, b: int)
    requires 0 <= a, 0 <= b, a + b <= s.len(),
    ensures #[trigger] s.skip(a).skip(b) == s.skip(a + b),
{
    assert(s.skip(a).skip(b) =~= s.skip(a + b));
}

pub proof fn lemma_prefix_concat(w: Seq<u8>, a: Seq<u8>, b: Seq<u8>)
    requires a.is_prefix_of(b),
    ensures (w + a).is_prefix_of(w + b),
{
    assert forall|i: int| 0 <= i < (w + a).len() implies (w + a)[i] == (w + b)[i] by {
        if i >= w.len() { assert(a[i - w.len()] == b[i - w.len()]); }
    }
}
pub proof fn lemma_prefix_trans(a: Seq<u8>, b: Seq<u8>, c: Seq<u8>)
    requires a.is_prefix_of(b), b.is_prefix_of(c),
    ensures a.is_prefix_of(c),
{
    assert forall|i: int| 0 <= i < a.len() implies a[i] == c[i] by { assert(a[i] == b[i]); assert(b[i] == c[i]); }
}
