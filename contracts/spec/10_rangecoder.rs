// =============================================================================================
// Format specification, part 1: the LZMA range decoder (LZMA SDK lzma-specification.txt, section
// "Range Decoder"), as pure ghost functions.  Transcribed from the format document, NOT from
// lzma-rs.  A spec decoder state is the pair of registers plus the input still to be read.
// Every function returns None when the input runs out in the middle (a real decoder must fail).
// `upd == false` is the dry-run mode of lzma-rs (probabilities are read but not adapted).
// =============================================================================================

pub struct Rc {
    pub range: u32,
    pub code: u32,
    pub inp: Seq<u8>,
}

pub const K_TOP: u32 = 0x0100_0000;         // kTopValue = 1 << 24
pub const K_BIT_MODEL_TOTAL: u32 = 0x800;   // 1 << kNumBitModelTotalBits (11)
pub const K_MOVE_BITS: u32 = 5;             // kNumMoveBits

/// Normalize(): if (Range < kTopValue) { Range <<= 8; Code = (Code << 8) | ReadByte(); }
pub open spec fn sp_normalize(rc: Rc) -> Option<Rc> {
    if rc.range < K_TOP {
        if rc.inp.len() == 0 {
            None
        } else {
            Some(Rc { range: rc.range << 8, code: (rc.code << 8) | (rc.inp[0] as u32), inp: rc.inp.skip(1) })
        }
    } else {
        Some(rc)
    }
}

pub open spec fn sp_prob_after(prob: u16, bit: bool, upd: bool) -> u16 {
    if !upd { prob }
    else if bit { (prob - (prob >> 5)) as u16 }
    else { (prob + ((0x800u16 - prob) as u16 >> 5)) as u16 }
}

/// DecodeBit(prob): bound = (Range >> 11) * prob; symbol 0 iff Code < bound.
pub open spec fn sp_bit(rc: Rc, prob: u16, upd: bool) -> Option<(bool, Rc, u16)> {
    let bound: u32 = ((rc.range >> 11) * (prob as u32)) as u32;
    if rc.code < bound {
        match sp_normalize(Rc { range: bound, code: rc.code, inp: rc.inp }) {
            Some(r2) => Some((false, r2, sp_prob_after(prob, false, upd))),
            None => None,
        }
    } else {
        match sp_normalize(Rc { range: (rc.range - bound) as u32, code: (rc.code - bound) as u32, inp: rc.inp }) {
            Some(r2) => Some((true, r2, sp_prob_after(prob, true, upd))),
            None => None,
        }
    }
}

/// One direct (probability 1/2) bit: Range >>= 1; bit = Code >= Range; if bit { Code -= Range }.
pub open spec fn sp_direct_bit(rc: Rc) -> Option<(bool, Rc)> {
    let r: u32 = rc.range >> 1;
    if rc.code >= r {
        match sp_normalize(Rc { range: r, code: (rc.code - r) as u32, inp: rc.inp }) {
            Some(r2) => Some((true, r2)), None => None }
    } else {
        match sp_normalize(Rc { range: r, code: rc.code, inp: rc.inp }) {
            Some(r2) => Some((false, r2)), None => None }
    }
}

/// DecodeDirectBits(n), most significant bit first; `acc` accumulates, `i` bits already read.
pub open spec fn sp_direct_bits(rc: Rc, n: nat, i: nat, acc: u32) -> Option<(u32, Rc)>
    decreases n - i
{
    if i >= n { Some((acc, rc)) }
    else {
        match sp_direct_bit(rc) {
            None => None,
            Some((b, r2)) => sp_direct_bits(r2, n, i + 1, ((acc << 1) + (if b { 1u32 } else { 0u32 })) as u32),
        }
    }
}

/// BitTreeDecode: m = 1; repeat numBits times: m = (m << 1) + DecodeBit(Probs[m]).
/// Returns the final m (the symbol is m - (1 << numBits)).
pub open spec fn sp_tree(rc: Rc, probs: Seq<u16>, n: nat, i: nat, m: nat, upd: bool) -> Option<(nat, Rc, Seq<u16>)>
    decreases n - i
{
    if i >= n { Some((m, rc, probs)) }
    else if m >= probs.len() { None }
    else {
        match sp_bit(rc, probs[m as int], upd) {
            None => None,
            Some((b, r2, p2)) => sp_tree(r2, probs.update(m as int, p2), n, i + 1, 2 * m + (if b { 1nat } else { 0nat }), upd),
        }
    }
}

/// BitTreeReverseDecode(probs + offset, numBits): m = 1; sym = 0;
/// for i: bit = DecodeBit(probs[offset + m]); m = (m << 1) + bit; sym |= bit << i.
pub open spec fn sp_rev_tree(rc: Rc, probs: Seq<u16>, off: nat, n: nat, i: nat, m: nat, sym: nat, upd: bool)
    -> Option<(nat, Rc, Seq<u16>)>
    decreases n - i
{
    if i >= n { Some((sym, rc, probs)) }
    else if off + m >= probs.len() { None }
    else {
        match sp_bit(rc, probs[(off + m) as int], upd) {
            None => None,
            Some((b, r2, p2)) => sp_rev_tree(r2, probs.update((off + m) as int, p2), off, n, i + 1,
                2 * m + (if b { 1nat } else { 0nat }), sym + (if b { pow2(i) } else { 0nat }), upd),
        }
    }
}

pub open spec fn pow2(i: nat) -> nat decreases i { if i == 0 { 1 } else { 2 * pow2((i - 1) as nat) } }

/// probabilities stay in [31, 2017]: the interval closed under both adaptation rules, within which
/// a single normalisation step restores Range >= 2^24 and every decoded bit strictly shrinks Range.
pub open spec fn prob_ok(p: u16) -> bool { 31 <= p <= 2017 }
pub open spec fn probs_ok(s: Seq<u16>) -> bool { forall|i: int| 0 <= i < s.len() ==> prob_ok(#[trigger] s[i]) }
pub open spec fn rc_ok(rc: Rc) -> bool { rc.range >= K_TOP }

/// Length decoder state: choice, choice2, low[16] x 8, mid[16] x 8, high x 256.
pub struct LenS {
    pub choice: u16,
    pub choice2: u16,
    pub low: Seq<Seq<u16>>,
    pub mid: Seq<Seq<u16>>,
    pub high: Seq<u16>,
}

/// component-wise equality of length-decoder states (avoids extensionality obligations)
pub open spec fn lens_eq(a: LenS, b: LenS) -> bool {
    &&& a.choice == b.choice && a.choice2 == b.choice2 && a.high =~= b.high
    &&& a.low.len() == 16 && b.low.len() == 16 && a.mid.len() == 16 && b.mid.len() == 16
    &&& forall|i: int| 0 <= i < 16 ==> #[trigger] a.low[i] =~= b.low[i]
    &&& forall|i: int| 0 <= i < 16 ==> #[trigger] a.mid[i] =~= b.mid[i]
}
pub broadcast proof fn lemma_lens_eq(a: LenS, b: LenS)
    requires #[trigger] lens_eq(a, b),
    ensures a == b,
{
    assert(a.low =~= b.low);
    assert(a.mid =~= b.mid);
}

/// LenDecoder::Decode(posState): returns the length minus kMatchMinLen (2): 0..7, 8..15, 16..271.
#[verifier::opaque]
pub open spec fn sp_len(rc: Rc, ld: LenS, pos_state: nat, upd: bool) -> Option<(nat, Rc, LenS)> {
    match sp_bit(rc, ld.choice, upd) {
        None => None,
        Some((b1, r1, c1)) => {
            if !b1 {
                match sp_tree(r1, ld.low[pos_state as int], 3, 0, 1, upd) {
                    None => None,
                    Some((m, r2, p2)) => Some(((m - 8) as nat, r2,
                        LenS { choice: c1, low: ld.low.update(pos_state as int, p2), ..ld })),
                }
            } else {
                match sp_bit(r1, ld.choice2, upd) {
                    None => None,
                    Some((b2, r2, c2)) => {
                        if !b2 {
                            match sp_tree(r2, ld.mid[pos_state as int], 3, 0, 1, upd) {
                                None => None,
                                Some((m, r3, p3)) => Some(((8 + m - 8) as nat, r3,
                                    LenS { choice: c1, choice2: c2, mid: ld.mid.update(pos_state as int, p3), ..ld })),
                            }
                        } else {
                            match sp_tree(r2, ld.high, 8, 0, 1, upd) {
                                None => None,
                                Some((m, r3, p3)) => Some(((16 + m - 256) as nat, r3,
                                    LenS { choice: c1, choice2: c2, high: p3, ..ld })),
                            }
                        }
                    }
                }
            }
        }
    }
}
