// ===========================================================================================
// Transparent stand-ins for std::io::Take / std::io::BufReader (rewrite rule R12) and the ghost
// views of `&mut R` / `&mut W`.  Unlike prelude.rs, the bodies in this file that are NOT marked
// external_body are VERIFIED against the Read / BufRead contracts.  That std's own adapters
// behave like these stand-ins is an assumption (their documented behaviour).
// ===========================================================================================
pub mod adapt {
    use vstd::prelude::*;
    use crate::{ReadSpec, WriteSpec, BufReadSpec};
    use crate::is_suffix;
    broadcast use {crate::ax::axiom_src_eq_refl, crate::ax::axiom_src_eq_trans};

    pub open spec fn min_nat(a: nat, b: nat) -> nat { if a <= b { a } else { b } }

    // ---- std::io::Take ------------------------------------------------------------------------
    pub struct TakeShim<'a, R: std::io::Read> { pub inner: &'a mut R, pub limit: u64 }

    impl<'a, R: std::io::Read> crate::ReadSpecImpl for TakeShim<'a, R> {
        open spec fn remaining(&self) -> Seq<u8> {
            (*self.inner).remaining().take(min_nat(self.limit as nat, (*self.inner).remaining().len()) as int)
        }
        open spec fn reliable(&self) -> bool { (*self.inner).reliable() }
        open spec fn greedy(&self) -> bool { false }
        #[verifier::prophetic]
        open spec fn src_eq(&self, o: &Self) -> bool {
            &&& mut_ref_future(self.inner) == mut_ref_future(o.inner) && (*self.inner).src_eq(&*o.inner)
            &&& (*self.inner).reliable() == (*o.inner).reliable()
            &&& self.limit <= o.limit && is_suffix((*self.inner).remaining(), (*o.inner).remaining())
            &&& o.limit - self.limit == (*o.inner).remaining().len() - (*self.inner).remaining().len()
        }
    }

    impl<'a, R: std::io::Read> TakeShim<'a, R> {
        pub fn new(inner: &'a mut R, limit: u64) -> (r: Self)
            ensures r.limit == limit, *r.inner == *old(inner), mut_ref_future(r.inner) == mut_ref_future(inner),
        {
            TakeShim { inner, limit }
        }
    }

    impl<'a, R: std::io::Read> std::io::Read for TakeShim<'a, R> {
        fn read(&mut self, buf: &mut [u8]) -> (r: std::io::Result<usize>)
        {
            proof { assert((*self.inner).remaining().skip(0) =~= (*self.inner).remaining()); }
            if self.limit == 0 { return Ok(0); }
            let max = if (buf.len() as u64) < self.limit { buf.len() } else { self.limit as usize };
            let ghost rem0 = (*self.inner).remaining();
            let ghost buf0 = buf@;
            let n = self.inner.read(&mut buf[..max])?;
            self.limit -= n as u64;
            proof {
                let k = min_nat(old(self).limit as nat, rem0.len()) as int;
                assert(rem0.take(k).skip(n as int) =~= rem0.skip(n as int).take(k - n));
                assert(rem0.take(k).take(n as int) =~= rem0.take(n as int));
                assert(buf@.take(n as int) =~= buf@.subrange(0, max as int).take(n as int));
                let sub1 = buf@.subrange(0, max as int);
                let sub0 = buf0.subrange(0, max as int);
                assert(sub1.skip(n as int) == sub0.skip(n as int));
                assert forall|i: int| n <= i < buf@.len() implies buf@[i] == buf0[i] by {
                    if i < max {
                        assert(sub1.skip(n as int)[i - n] == sub0.skip(n as int)[i - n]);
                    }
                }
                assert(buf@.skip(n as int) =~= buf0.skip(n as int));
            }
            Ok(n)
        }
    }

    impl<'a, R: std::io::BufRead> crate::BufReadSpecImpl for TakeShim<'a, R> {
        open spec fn buffered(&self) -> nat { min_nat((*self.inner).buffered(), self.limit as nat) }
    }
    impl<'a, R: std::io::BufRead> std::io::BufRead for TakeShim<'a, R> {
        fn fill_buf(&mut self) -> (r: std::io::Result<&[u8]>)
        {
            proof { assert((*self.inner).remaining().skip(0) =~= (*self.inner).remaining()); }
            let ghost rem0 = (*self.inner).remaining();
            let buf = self.inner.fill_buf()?;
            let cap = if (buf.len() as u64) < self.limit { buf.len() } else { self.limit as usize };
            let res = &buf[..cap];
            proof {
                let k = min_nat(self.limit as nat, rem0.len()) as int;
                assert(res@ =~= buf@.take(cap as int));
                assert(res@.is_prefix_of(rem0.take(k)));
            }
            Ok(res)
        }
        fn consume(&mut self, amt: usize)
        {
            let ghost rem0 = (*self.inner).remaining();
            let amt2 = if (amt as u64) < self.limit { amt } else { self.limit as usize };
            self.limit -= amt2 as u64;
            self.inner.consume(amt2);
            proof {
                let k = min_nat(old(self).limit as nat, rem0.len()) as int;
                assert(rem0.take(k).skip(amt as int) =~= rem0.skip(amt as int).take(k - amt));
            }
        }
    }

    // ---- `&mut R` reads through to R ------------------------------------------------------------
    impl<'a, R: std::io::Read> crate::ReadSpecImpl for &'a mut R {
        open spec fn remaining(&self) -> Seq<u8> { (**self).remaining() }
        open spec fn reliable(&self) -> bool { (**self).reliable() }
        open spec fn greedy(&self) -> bool { (**self).greedy() }
        #[verifier::prophetic]
        open spec fn src_eq(&self, o: &Self) -> bool {
            mut_ref_future(*self) == mut_ref_future(*o) && (**self).src_eq(&**o)
        }
    }
    impl<'a, B: std::io::BufRead + ?Sized> crate::BufReadSpecImpl for &'a mut B {
        open spec fn buffered(&self) -> nat { (**self).buffered() }
    }

    // ---- std::io::BufReader: reads ahead from `inner` into a private buffer ----------------------
    // ghost view: the bytes still buffered followed by what `inner` will deliver.  How much is read
    // ahead per refill is whatever `inner.read` returns for a CAP-byte request (any amount >= 1).
    pub struct BufReaderShim<R: std::io::Read> { pub inner: R, pub buf: Vec<u8>, pub pos: usize }

    impl<R: std::io::Read> BufReaderShim<R> {
        pub open spec fn pending(&self) -> Seq<u8> {
            if self.pos <= self.buf@.len() { self.buf@.skip(self.pos as int) } else { Seq::<u8>::empty() }
        }
        pub fn new(inner: R) -> (r: Self)
            ensures r.inner == inner, r.pending().len() == 0,
        {
            BufReaderShim { inner, buf: Vec::new(), pos: 0 }
        }
    }
    impl<R: std::io::Read> crate::ReadSpecImpl for BufReaderShim<R> {
        open spec fn remaining(&self) -> Seq<u8> { self.pending() + self.inner.remaining() }
        open spec fn reliable(&self) -> bool { self.inner.reliable() }
        open spec fn greedy(&self) -> bool { false }
        #[verifier::prophetic]
        open spec fn src_eq(&self, o: &Self) -> bool {
            &&& self.inner.src_eq(&o.inner) && self.inner.reliable() == o.inner.reliable()
            &&& is_suffix(self.pending() + self.inner.remaining(), o.pending() + o.inner.remaining())
            &&& is_suffix(self.inner.remaining(), o.inner.remaining())
        }
    }
    impl<R: std::io::Read> crate::BufReadSpecImpl for BufReaderShim<R> {
        open spec fn buffered(&self) -> nat { self.pending().len() }
    }
    impl<R: std::io::Read> std::io::Read for BufReaderShim<R> {
        // only reached through the (assumed) generic contracts of read_u8 / read_exact; kept unverified
        #[verifier::external_body]
        fn read(&mut self, buf: &mut [u8]) -> (r: std::io::Result<usize>) { unimplemented!() }
    }
    impl<R: std::io::Read> std::io::BufRead for BufReaderShim<R> {
        fn fill_buf(&mut self) -> (r: std::io::Result<&[u8]>)
        {
            proof {
                assert(self.remaining().skip(0) =~= self.remaining());
                assert(self.inner.remaining().skip(0) =~= self.inner.remaining());
            }
            if self.pos >= self.buf.len() {
                let ghost rem0 = self.inner.remaining();
                let mut tmp: Vec<u8> = Vec::new();
                tmp.resize(8192, 0u8);
                let n = self.inner.read(tmp.as_mut_slice())?;
                tmp.truncate(n);
                self.buf = tmp;
                self.pos = 0;
                proof {
                    assert(self.buf@ =~= rem0.take(n as int));
                    assert(self.pending() =~= rem0.take(n as int));
                    assert(self.pending() + self.inner.remaining() =~= rem0);
                    assert(old(self).pending() + rem0 =~= rem0);
                }
            }
            let res = &self.buf[self.pos..];
            proof {
                assert(res@ =~= self.pending());
                assert(res@.is_prefix_of(self.remaining()));
            }
            Ok(res)
        }
        fn consume(&mut self, amt: usize)
        {
            let ghost p0 = self.pending();
            let ghost r0 = self.remaining();
            proof { assert(self.buf@.len() == self.buf.len()); }
            self.pos = self.pos + amt;
            proof {
                assert(self.pending() =~= p0.skip(amt as int));
                assert(self.remaining() =~= r0.skip(amt as int));
                assert(self.inner.remaining().skip(0) =~= self.inner.remaining());
            }
        }
    }

    // ---- Vec<u8> as a sink (std: appends, never fails) ---------------------------------------------
    impl<A: core::alloc::Allocator> crate::WriteSpecImpl for Vec<u8, A> {
        open spec fn written(&self) -> Seq<u8> { self@ }
        open spec fn infallible(&self) -> bool { true }
        open spec fn flushed(&self) -> nat { self@.len() }
        #[verifier::prophetic]
        open spec fn snk_eq(&self, o: &Self) -> bool { o@.is_prefix_of(self@) }
    }

    // ---- `&[u8]` as a reader (std: the slice shrinks as it is read) --------------------------------
    impl<'a> crate::ReadSpecImpl for &'a [u8] {
        open spec fn remaining(&self) -> Seq<u8> { (*self)@ }
        open spec fn reliable(&self) -> bool { true }
        open spec fn greedy(&self) -> bool { true }
        #[verifier::prophetic]
        open spec fn src_eq(&self, o: &Self) -> bool { is_suffix((*self)@, (*o)@) }
    }

    // ---- std::io::Cursor over a byte slice, used as a reader (rewrite rule R17) --------------------
    // std: reads from get_ref()[position..], never fails, hands over as much as fits, and moves the
    // position by exactly that amount.  The bodies below are verified against the Read / BufRead contracts.
    pub struct SliceCursor<'a> { pub data: &'a [u8], pub pos: u64 }

    impl<'a> SliceCursor<'a> {
        pub fn new(data: &'a [u8]) -> (r: Self)
            ensures r.data == data, r.pos == 0,
        {
            SliceCursor { data, pos: 0 }
        }
        pub open spec fn rem(&self) -> Seq<u8> {
            if self.pos <= self.data@.len() { self.data@.skip(self.pos as int) } else { Seq::<u8>::empty() }
        }
        pub fn position(&self) -> (r: u64)
            ensures r == self.pos,
        {
            self.pos
        }
        pub fn set_position(&mut self, pos: u64)
            ensures final(self).pos == pos, final(self).data == old(self).data,
        {
            self.pos = pos;
        }
    }
    impl<'a> crate::ReadSpecImpl for SliceCursor<'a> {
        open spec fn remaining(&self) -> Seq<u8> { self.rem() }
        open spec fn reliable(&self) -> bool { true }
        open spec fn greedy(&self) -> bool { true }
        #[verifier::prophetic]
        open spec fn src_eq(&self, o: &Self) -> bool {
            self.data@ == o.data@ && (o.pos <= o.data@.len() ==> self.pos <= self.data@.len())
        }
    }
    impl<'a> crate::BufReadSpecImpl for SliceCursor<'a> {
        open spec fn buffered(&self) -> nat { self.rem().len() }
    }
    impl<'a> std::io::Read for SliceCursor<'a> {
        fn read(&mut self, buf: &mut [u8]) -> (r: std::io::Result<usize>)
        {
            let len = self.data.len();
            let start: usize = if self.pos < len as u64 { self.pos as usize } else { len };
            let avail = len - start;
            let n = if buf.len() < avail { buf.len() } else { avail };
            let ghost buf0 = buf@;
            let ghost rem0 = self.rem();
            proof { assert(rem0 =~= self.data@.skip(start as int)); }
            buf[..n].copy_from_slice(&self.data[start..start + n]);
            if n > 0 { self.pos = self.pos + n as u64; }
            proof {
                assert(buf@.take(n as int) =~= rem0.take(n as int));
                assert(buf@.skip(n as int) =~= buf0.skip(n as int));
                assert(self.rem() =~= rem0.skip(n as int));
            }
            Ok(n)
        }
    }
    impl<'a> std::io::BufRead for SliceCursor<'a> {
        fn fill_buf(&mut self) -> (r: std::io::Result<&[u8]>)
        {
            let len = self.data.len();
            let start: usize = if self.pos < len as u64 { self.pos as usize } else { len };
            let res = &self.data[start..];
            proof { assert(res@ =~= self.rem()); }
            Ok(res)
        }
        fn consume(&mut self, amt: usize)
        {
            let ghost rem0 = self.rem();
            proof { assert(self.data@.len() == self.data.len()); }
            self.pos = self.pos + amt as u64;
            proof { assert(self.rem() =~= rem0.skip(amt as int)); }
        }
    }

    // ---- std::io::Bytes (`Read::bytes()`), rewrite rule R22 -----------------------------------------
    // Verified stand-in: yields the source's bytes one at a time, in order; `None` only when a read of one byte
    // returns 0; an error is handed on and consumes nothing.  (std's `Bytes::next` additionally retries on
    // ErrorKind::Interrupted; the I/O model has no error kinds.)
    pub struct BytesShim<R: std::io::Read> { pub inner: R }

    impl<R: std::io::Read> BytesShim<R> {
        pub fn new(inner: R) -> (r: Self)
            ensures r.inner == inner,
        {
            BytesShim { inner }
        }
        pub fn next(&mut self) -> (r: Option<std::io::Result<u8>>)
            ensures
                final(self).inner.reliable() == old(self).inner.reliable(),
                match r {
                    None => final(self).inner.remaining() == old(self).inner.remaining()
                        && old(self).inner.remaining().len() == 0,
                    Some(Ok(b)) => old(self).inner.remaining().len() > 0 && b == old(self).inner.remaining()[0]
                        && final(self).inner.remaining() == old(self).inner.remaining().skip(1),
                    Some(Err(_)) => final(self).inner.remaining() == old(self).inner.remaining()
                        && !old(self).inner.reliable(),
                },
        {
            let mut buf = [0u8; 1];
            let ghost rem0 = self.inner.remaining();
            match self.inner.read(&mut buf) {
                Ok(n) => {
                    if n == 0 {
                        proof { assert(rem0.skip(0) =~= rem0); }
                        None
                    } else {
                        proof { assert(buf@.take(1)[0] == rem0.take(1)[0]); }
                        Some(Ok(buf[0]))
                    }
                },
                Err(e) => Some(Err(e)),
            }
        }
    }
}
